"""Tiering, sharding over worker processes, result merge, evidence writer, VIOLATION / KNOWN-FINDING lines.

A property module (vf/props/cNN.py) provides

    ID, LEVEL, RULE, ASSUMPTIONS, FLOOR (dict tier -> minimal distinct_nontrivial, optional)
    parts(tier)            -> list of {"name": str, "n": int, "shard": bool}   work items
    run_part(name, seed, n, tier, ctx, shard_index, shard_count)   executed inside a worker process
    replay(case, ctx)      -> re-evaluate one saved case (same oracle, no Hypothesis)
    facts(case)            -> dict of simple facts about a case, used to match known findings (optional)
    shrink_candidates(case)-> iterator of smaller cases (optional)

Workers never raise for a property violation: they record it in the context (collect-then-shrink), so the
search continues behind a shallow defect and root causes are bucketed.  Any *other* exception in a worker is a
harness error and ends the run with exit code 2.
"""
from __future__ import annotations

import hashlib
import importlib
import json
import multiprocessing as mp
import os
import re
import sys
import time
import traceback
from collections import Counter

HERE = os.path.dirname(os.path.dirname(os.path.abspath(__file__)))
N_WORKERS = int(os.environ.get("VERIF_WORKERS", "16"))
# where evidence and newly found replay files are written (mutant / scratch-tree runs point this elsewhere so that the
# committed evidence always comes from a run against /repo itself)
OUT = os.environ.get("VERIF_OUT", HERE)
MAX_SAMPLES = 5
MAX_VIOL_PER_BUCKET = 4


def jhash(obj) -> str:
    return hashlib.sha1(json.dumps(obj, sort_keys=True, default=str).encode()).hexdigest()[:12]


class PropertyViolation(Exception):
    def __init__(self, kind, detail=""):
        super().__init__(f"{kind}: {detail}")
        self.kind = kind
        self.detail = detail


class Ctx:
    """Per-worker collection context."""

    def __init__(self, prop_id, known_entries=None, facts_fn=None):
        self.prop_id = prop_id
        self.evaluations = 0
        self.labels = Counter()
        self.sigs = set()
        self.samples = []
        self.violations = []  # dicts: kind, sig, detail, case
        self._bucket_counts = Counter()
        self.known = Counter()
        self.known_entries = [e for e in (known_entries or []) if e.get("status") == "open"]
        self.facts_fn = facts_fn
        self.extra = {}

    # -- bookkeeping ---------------------------------------------------------------------------------------
    def evaluated(self, k=1):
        self.evaluations += k

    def label(self, name, k=1):
        self.labels[str(name)] += k

    def nontrivial(self, signature, sample=None):
        """Record a case that is non-trivial by the property's rule; `signature` identifies distinctness."""
        s = signature if isinstance(signature, str) else jhash(signature)
        new = s not in self.sigs
        self.sigs.add(s)
        if sample is not None and new and len(self.samples) < MAX_SAMPLES:
            self.samples.append(sample)

    # -- violations ----------------------------------------------------------------------------------------
    def match_known(self, kind, sig, case):
        facts = None
        for e in self.known_entries:
            if e.get("property") != self.prop_id and self.prop_id not in e.get("properties", []):
                continue
            m = e.get("match", {})
            if m.get("kind") is not None and m["kind"] != kind:
                continue
            if m.get("sig_re") is not None and not re.search(m["sig_re"], sig or ""):
                continue
            where = m.get("where") or {}
            if where:
                if facts is None:
                    from vf.props.common import common_facts

                    inner = case.get("case", case) if isinstance(case, dict) else {}
                    facts = common_facts(inner) if isinstance(inner, dict) else {}
                    try:
                        facts.update((self.facts_fn(case) if self.facts_fn else {}) or {})
                    except Exception:
                        pass
                if any(facts.get(k) != v for k, v in where.items()):
                    continue
            return e
        return None

    def violation(self, kind, detail, case, sig=""):
        """Record a property violation (or count it under a known finding)."""
        e = self.match_known(kind, sig, case)
        if e is not None:
            self.known[e["id"]] += 1
            self.label("known:" + e["id"])
            return
        bucket = f"{kind}|{sig}"
        self._bucket_counts[bucket] += 1
        if self._bucket_counts[bucket] <= MAX_VIOL_PER_BUCKET:
            self.violations.append({"kind": kind, "sig": sig, "detail": str(detail)[:2000], "case": case})

    def dump(self):
        return {
            "evaluations": self.evaluations,
            "labels": dict(self.labels),
            "sigs": sorted(self.sigs),
            "samples": self.samples,
            "violations": self.violations,
            "bucket_counts": dict(self._bucket_counts),
            "known": dict(self.known),
            "extra": self.extra,
        }


def exc_signature(exc) -> str:
    """(exception type, innermost frame inside the repository sources)."""
    tb = traceback.extract_tb(exc.__traceback__)
    frame = ""
    for fr in tb:
        if "/elexmodel/" in fr.filename:
            frame = f"{os.path.basename(fr.filename)}:{fr.name}"
    return f"{type(exc).__name__}@{frame}"


def load_known():
    path = os.path.join(HERE, "known_findings.json")
    if not os.path.exists(path):
        return []
    with open(path) as f:
        return json.load(f)


def _worker(args):
    prop_name, part, seed, n, tier, si, sc = args
    os.environ.setdefault("OMP_NUM_THREADS", "1")
    t0 = time.time()
    try:
        mod = importlib.import_module(f"vf.props.{prop_name}")
        ctx = Ctx(mod.ID, load_known(), getattr(mod, "facts", None))
        mod.run_part(part, seed, n, tier, ctx, si, sc)
        out = ctx.dump()
        out["error"] = None
    except BaseException as e:  # harness error: reported, never turned into a pass or a violation
        out = {"error": f"{type(e).__name__}: {e}\n" + "".join(traceback.format_tb(e.__traceback__))[-3000:]}
    out["part"] = part
    out["wall"] = time.time() - t0
    return out


def hyp_run(strategy, body, seed, n, tier, stateful=None):
    """Run `body(case)` over `n` generated cases.  `body` must not raise for violations."""
    import hypothesis
    from hypothesis import HealthCheck, Phase, given, settings

    # Hypothesis starts the generate phase with the simplest possible example (all draws minimal).  With a few
    # examples per shard that example would dominate, so it is generated but not evaluated.
    state = {"first": True}
    st = settings(
        max_examples=max(1, n) + 1,
        database=None,
        deadline=None,
        derandomize=False,
        report_multiple_bugs=False,
        phases=[Phase.generate],
        suppress_health_check=list(HealthCheck),
        print_blob=False,
    )

    @hypothesis.seed(seed)
    @st
    @given(strategy)
    def test(case):
        if state["first"]:
            state["first"] = False
            return
        body(case)

    test()


def merge(outs):
    m = {
        "evaluations": 0,
        "labels": Counter(),
        "sigs": set(),
        "samples": [],
        "violations": [],
        "bucket_counts": Counter(),
        "known": Counter(),
        "extra": {},
        "errors": [],
        "part_wall": Counter(),
    }
    for o in outs:
        if o.get("error"):
            m["errors"].append(f"[{o.get('part')}] {o['error']}")
            continue
        m["evaluations"] += o["evaluations"]
        m["labels"].update(o["labels"])
        m["sigs"].update(o["sigs"])
        for s in o["samples"]:
            if len(m["samples"]) < MAX_SAMPLES:
                m["samples"].append(s)
        m["violations"].extend(o["violations"])
        m["bucket_counts"].update(o["bucket_counts"])
        m["known"].update(o["known"])
        for k, v in o["extra"].items():
            if isinstance(v, (int, float)) and isinstance(m["extra"].get(k, 0), (int, float)):
                m["extra"][k] = m["extra"].get(k, 0) + v
            elif isinstance(v, list):
                m["extra"].setdefault(k, []).extend(v)
            elif isinstance(v, dict):
                d = m["extra"].setdefault(k, {})
                for kk, vv in v.items():
                    if isinstance(vv, (int, float)):
                        d[kk] = d.get(kk, 0) + vv
                    else:
                        d[kk] = vv
            else:
                m["extra"][k] = v
        m["part_wall"][o["part"]] += o["wall"]
    return m


def case_size(case):
    return len(json.dumps(case, default=str))


def shrink_case(mod, case, kind, sig, budget=40):
    """Structural delta-debugging on the JSON case while the same (kind, sig) violation persists."""
    cands_fn = getattr(mod, "shrink_candidates", None)
    if cands_fn is None:
        return case, 0
    used = 0

    def still_fails(c):
        ctx = Ctx(mod.ID, [], None)
        try:
            mod.replay(c, ctx)
        except BaseException:
            return False
        return any(v["kind"] == kind and v["sig"] == sig for v in ctx.violations)

    improved = True
    while improved and used < budget:
        improved = False
        for c in cands_fn(case):
            if used >= budget:
                break
            used += 1
            if still_fails(c):
                case = c
                improved = True
                break
    return case, used


def write_evidence(mod, tier, seed, merged, wall, n_viol, extra_cov=None):
    os.makedirs(os.path.join(OUT, "evidence"), exist_ok=True)
    cov = {
        "evaluations": int(merged["evaluations"]),
        "distinct_nontrivial": len(merged["sigs"]),
        "rule": mod.RULE,
        "samples": merged["samples"][:MAX_SAMPLES] or [{"note": "no non-trivial sample recorded"}],
        "labels": dict(sorted(merged["labels"].items(), key=lambda kv: -kv[1])[:80]),
        "excluded_known": dict(merged["known"]),
        "parts_cpu_s": {k: round(v, 1) for k, v in merged["part_wall"].items()},
    }
    for k, v in merged["extra"].items():
        if k.startswith("cov_"):
            cov[k[4:]] = v
    if extra_cov:
        cov.update(extra_cov)
    ev = {
        "property_id": mod.ID,
        "tier": tier,
        "seed": int(seed),
        "level": mod.LEVEL,
        "coverage": cov,
        "assumptions": list(getattr(mod, "ASSUMPTIONS", [])),
        "wall_s": round(wall, 2),
        "violations": int(n_viol),
    }
    path = os.path.join(OUT, "evidence", f"{mod.ID}.json")
    with open(path, "w") as f:
        json.dump(ev, f, indent=1, default=str)
    return path


def run_replays(mod, known):
    """Seconds-long replay tier: every committed regression input of this property is re-evaluated."""
    d = os.path.join(HERE, "replay", mod.ID)
    ctx = Ctx(mod.ID, known, getattr(mod, "facts", None))
    n = 0
    if os.path.isdir(d):
        for fn in sorted(os.listdir(d)):
            if not fn.endswith(".json"):
                continue
            with open(os.path.join(d, fn)) as f:
                doc = json.load(f)
            before = len(ctx.violations)
            mod.replay(doc["case"], ctx)
            n += 1
            for v in ctx.violations[before:]:
                v["replay_file"] = os.path.join("replay", mod.ID, fn)
    return ctx, n


def run_check(prop_name, tier, seed):
    t0 = time.time()
    mod = importlib.import_module(f"vf.props.{prop_name}")
    known = load_known()
    tasks = []
    for p in mod.parts(tier):
        if p.get("shard", True):
            sc = min(N_WORKERS, max(1, p.get("max_shards", N_WORKERS)))
            base, rem = divmod(p["n"], sc)
            for si in range(sc):
                n_i = base + (1 if si < rem else 0)
                if n_i > 0:
                    tasks.append((prop_name, p["name"], seed * 1000 + si, n_i, tier, si, sc))
        else:
            tasks.append((prop_name, p["name"], seed * 1000, p["n"], tier, 0, 1))
    # longest first
    mpctx = mp.get_context("spawn")
    # a property whose workers must set the environment before importing elexmodel asks for one process per task
    fresh = 1 if getattr(mod, "FRESH_PROCESS_PER_TASK", False) else None
    with mpctx.Pool(min(N_WORKERS, max(1, len(tasks))), maxtasksperchild=fresh) as pool:
        outs = []
        for o in pool.imap_unordered(_worker, tasks, chunksize=1):
            outs.append(o)
            if os.environ.get("VERIF_DEBUG"):
                print(f"[debug] t={time.time() - t0:.1f}s task {o.get('part')} done in {o.get('wall', 0):.1f}s err={bool(o.get('error'))}", file=sys.stderr)
    merged = merge(outs)

    # replay tier (in-process, cheap)
    rctx, n_replayed = None, 0
    try:
        rctx, n_replayed = run_replays(mod, known)
    except BaseException as e:
        merged["errors"].append(f"[replay] {type(e).__name__}: {e}\n{traceback.format_exc()[-3000:]}")
    if rctx is not None:
        merged["evaluations"] += n_replayed
        merged["labels"]["replayed_regression_inputs"] += n_replayed
        merged["known"].update(rctx.known)

    # violations: bucket, shrink, write replay files
    lines = []
    buckets = {}
    for v in merged["violations"]:
        b = (v["kind"], v["sig"])
        if b not in buckets or case_size(v["case"]) < case_size(buckets[b]["case"]):
            buckets[b] = v
    n_viol = 0
    for (kind, sig), v in sorted(buckets.items()):
        case = v["case"]
        try:
            case, _ = shrink_case(mod, case, kind, sig, budget=40 if tier == "quick" else 120)
        except BaseException:
            pass
        os.makedirs(os.path.join(OUT, "replay", mod.ID, "found"), exist_ok=True)
        name = re.sub(r"[^A-Za-z0-9_.-]+", "_", kind)[:60] + "-" + jhash(case) + ".json"
        rel = os.path.join("replay", mod.ID, "found", name)
        with open(os.path.join(OUT, rel), "w") as f:
            json.dump({"property": mod.ID, "kind": kind, "sig": sig, "detail": v["detail"], "case": case}, f, indent=1, default=str)
        lines.append(f"VIOLATION property={mod.ID} replay={rel}  kind={kind} sig={sig} count={merged['bucket_counts'].get(kind + '|' + sig, 1)} :: {v['detail'][:300]}")
        n_viol += 1
    if rctx is not None:
        for v in rctx.violations:
            lines.append(f"VIOLATION property={mod.ID} replay={v.get('replay_file')}  kind={v['kind']} sig={v['sig']} (regression input) :: {v['detail'][:300]}")
            n_viol += 1

    wall = time.time() - t0
    write_evidence(mod, tier, seed, merged, wall, n_viol)

    for e in known:
        if e.get("status") == "open" and (e.get("property") == mod.ID or mod.ID in e.get("properties", [])):
            cnt = merged["known"].get(e["id"], 0)
            print(f"KNOWN-FINDING: property={mod.ID} {e['id']} {e['what']} (met and excluded in this run: {cnt} cases)")
    for ln in lines:
        print(ln)
    print(
        f"[{mod.ID}] tier={tier} seed={seed} evaluations={merged['evaluations']} distinct_nontrivial={len(merged['sigs'])} "
        f"violations={n_viol} known_excluded={sum(merged['known'].values())} wall={wall:.1f}s"
    )
    if merged["errors"]:
        for e in merged["errors"][:5]:
            print("HARNESS-ERROR", e, file=sys.stderr)
        return 2
    if n_viol:
        return 1
    floor = getattr(mod, "FLOOR", {}).get(tier, 2)
    if len(merged["sigs"]) < max(2, floor):
        print(f"HARNESS-ERROR distinct_nontrivial={len(merged['sigs'])} below floor {floor}: generator regression", file=sys.stderr)
        return 2
    return 0


def run_replay_file(prop_name, path):
    mod = importlib.import_module(f"vf.props.{prop_name}")
    with open(path) as f:
        doc = json.load(f)
    ctx = Ctx(mod.ID, load_known(), getattr(mod, "facts", None))
    mod.replay(doc["case"], ctx)
    for fid, cnt in ctx.known.items():
        print(f"KNOWN-FINDING: property={mod.ID} {fid}")
    for v in ctx.violations:
        print(f"VIOLATION property={mod.ID} replay={path}  kind={v['kind']} sig={v['sig']} :: {v['detail'][:600]}")
    if ctx.violations:
        return 1
    print(f"[{mod.ID}] replay {path}: property held")
    return 0
