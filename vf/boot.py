"""Model-level harness for the bootstrap model: generated draw matrices on a BootstrapElectionModel.

As the repository's own tests do, the attributes the bootstrap produces (errors_B_1..4, weighted_*_test_pred, B) are
set directly, respecting the producer's invariants (|B_1| <= B_3, |B_2| <= B_4, B_3, B_4 >= 0, |w y z| <= w z), and the
real aggregate / interval / national-summary functions are called.
"""
from __future__ import annotations

import numpy as np
import pandas as pd
from hypothesis import strategies as st

MEANS = [-0.4, -0.05, -0.004, 0.0, 0.004, 0.05, 0.4]
SPREADS = [0.0, 0.002, 0.05, 0.5]


@st.composite
def model_case(draw, district=None, max_contests=5, with_calls=True, alphas_pool=(0.5, 0.7, 0.8, 0.9, 0.95, 0.99)):
    """A JSON case: contests with reporting / nonreporting / unexpected units and a recipe for the draws."""
    district = draw(st.booleans()) if district is None else district
    k = draw(st.integers(1, max_contests))
    states = ["AA", "BB", "CC"]
    dists = draw(st.sampled_from([["1", "10", "2"], ["d1", "d2", "d3"]]))
    contests = []
    names = set()
    for i in range(k):
        s = states[draw(st.integers(0, 2))]
        d = dists[draw(st.integers(0, 2))] if district else None
        name = f"{s}_{d}" if district else s
        if name in names:
            continue
        names.add(name)
        contests.append(
            {
                "name": name,
                "st": s,
                "dist": d,
                "n_rep": draw(st.integers(0, 3)),
                "n_non": draw(st.integers(0, 3)),
                "n_unexp": draw(st.sampled_from([0, 0, 1])),
                "mean": draw(st.sampled_from(MEANS)),
                "spread": draw(st.sampled_from(SPREADS)),
                "skew": draw(st.sampled_from([0, 0, 1, -1])),
                "rep_margin": draw(st.sampled_from([-0.5, -0.01, 0.0, 0.01, 0.5])),
            }
        )
    contests = [c for c in contests if c["n_rep"] + c["n_non"] + c["n_unexp"] > 0] or [
        dict(contests[0], n_non=1) if contests else {"name": "AA", "st": "AA", "dist": None, "n_rep": 1, "n_non": 1, "n_unexp": 0, "mean": 0.0, "spread": 0.05, "skew": 0, "rep_margin": 0.0}
    ]
    if district and contests[0]["dist"] is None:
        contests[0]["dist"] = dists[0]
        contests[0]["name"] = f"{contests[0]['st']}_{dists[0]}"
    B = draw(st.sampled_from([2, 3, 5, 10, 20, 50]))
    n_alpha = draw(st.integers(1, 3))
    alphas = sorted(draw(st.lists(st.sampled_from(list(alphas_pool)), min_size=n_alpha, max_size=n_alpha, unique=True)))
    case = {
        "district": district,
        "contests": contests,
        "B": B,
        "alphas": alphas,
        "noise_seed": draw(st.integers(0, 2**31 - 1)),
        "ties": draw(st.booleans()),
        "lhs": [],
        "rhs": [],
        "stop": [],
    }
    if with_calls:
        for c in contests:
            state = draw(st.sampled_from(["none", "none", "L", "R"]))
            if state == "L":
                case["lhs"].append(c["name"])
            elif state == "R":
                case["rhs"].append(c["name"])
            if draw(st.integers(0, 3)) == 0:
                case["stop"].append(c["name"])
    return case


COLS = [
    "postal_code",
    "district",
    "geographic_unit_fips",
    "pred_margin",
    "results_margin",
    "results_weights",
    "results_normalized_margin",
    "baseline_weights",
    "turnout_factor",
    "reporting",
    "baseline_dem",
    "baseline_gop",
    "baseline_turnout",
    "pred_turnout",
]


def build(case):
    """Returns (model, reporting, nonreporting, unexpected, aggregate list)."""
    from elexmodel.models.BootstrapElectionModel import BootstrapElectionModel

    rng = np.random.default_rng(case["noise_seed"])
    B = case["B"]
    rep, non, unx = [], [], []
    E1, E2, E3, E4, wyz, wz = [], [], [], [], [], []
    uid = 0
    for c in case["contests"]:
        for _ in range(c["n_rep"]):
            uid += 1
            w = float(rng.integers(50, 3000))
            z = float(rng.uniform(0.7, 1.4))
            y = float(np.clip(c["rep_margin"] + rng.normal(0, 0.02), -1, 1))
            rw = w * z
            rep.append([c["st"], c["dist"], f"u{uid}", rw * y, rw * y, rw, y, w, z, 1, w * 0.5, w * 0.5, w * 1.1, rw])
        for _ in range(c["n_non"]):
            uid += 1
            w = float(rng.integers(50, 3000))
            zhat = float(rng.uniform(0.7, 1.4))
            yhat = float(np.clip(c["mean"] + rng.normal(0, c["spread"] / 4), -1, 1))
            noise = rng.normal(0, 1, size=(2, B))
            if c["skew"]:
                noise = c["skew"] * np.abs(noise)
            if case["ties"]:
                noise = np.round(noise)
            yB = np.clip(yhat + c["spread"] * noise[0], -1, 1)
            yP = np.clip(yhat + c["spread"] * noise[1] * 1.3, -1, 1)
            zB = np.clip(zhat + 0.05 * rng.normal(0, 1, B), 0.5, 1.5)
            zP = np.clip(zhat + 0.08 * rng.normal(0, 1, B), 0.5, 1.5)
            E1.append(w * yB * zB)
            E3.append(w * zB)
            E2.append(w * yP * zP)
            E4.append(w * zP)
            wyz.append(w * yhat * zhat)
            wz.append(w * zhat)
            partial = float(rng.uniform(0, 0.4)) * w
            non.append([c["st"], c["dist"], f"u{uid}", w * yhat * zhat, partial * 0.1, partial, 0.1, w, partial / w, 0, w * 0.5, w * 0.5, w * 1.1, w * zhat])
        for _ in range(c["n_unexp"]):
            uid += 1
            rw = float(rng.integers(0, 500))
            y = float(rng.uniform(-1, 1))
            unx.append([c["st"], c["dist"], f"u{uid}", rw * y, rw * y, rw, y, np.nan, np.nan, 0, np.nan, np.nan, np.nan, rw])
    def frame(rows):
        df = pd.DataFrame(rows, columns=COLS)
        for c in COLS[3:]:
            df[c] = df[c].astype(float)  # also for empty frames (the real frames always have numeric dtypes)
        for c in COLS[:3]:
            df[c] = df[c].astype(object)
        df["reporting"] = df["reporting"].astype(int)
        return df

    reporting, nonreporting, unexpected = frame(rep), frame(non), frame(unx)
    if not case["district"]:
        reporting, nonreporting, unexpected = (d.drop(columns=["district"]) for d in (reporting, nonreporting, unexpected))
    model = BootstrapElectionModel({"features": ["baseline_normalized_margin"], "B": B, **case.get("settings", {})})
    n = len(non)
    model.B = B
    model.errors_B_1 = np.array(E1).reshape(n, B)
    model.errors_B_2 = np.array(E2).reshape(n, B)
    model.errors_B_3 = np.array(E3).reshape(n, B)
    model.errors_B_4 = np.array(E4).reshape(n, B)
    model.weighted_yz_test_pred = np.array(wyz).reshape(n, 1)
    model.weighted_z_test_pred = np.array(wz).reshape(n, 1)
    model.ran_bootstrap = True
    agg = ["postal_code", "district"] if case["district"] else ["postal_code"]
    return model, reporting, nonreporting, unexpected, agg


def top_level(case, lhs=None, rhs=None, stop=None, model_and_frames=None):
    """Runs the top-level aggregate prediction + intervals for every alpha; returns (model, table).

    table: DataFrame with contest name, pred_margin, pred_turnout, results_margin, lower_a, upper_a."""
    model, rep, non, unx, agg = model_and_frames or build(case)
    lhs = case["lhs"] if lhs is None else lhs
    rhs = case["rhs"] if rhs is None else rhs
    stop = case["stop"] if stop is None else stop
    df = model.get_aggregate_predictions(rep, non, unx, agg, "margin", lhs_called_contests=lhs, rhs_called_contests=rhs)
    out = df.copy()
    for a in case["alphas"]:
        lo, up = model.get_aggregate_prediction_intervals(
            rep, non, unx, agg, a, None, "margin", lhs_called_contests=lhs, rhs_called_contests=rhs, stop_model_call=stop
        )
        out[f"lower_{a}"] = np.asarray(lo).reshape(-1)
        out[f"upper_{a}"] = np.asarray(up).reshape(-1)
    out["name"] = out[agg].agg("_".join, axis=1) if len(agg) > 1 else out[agg[0]]
    return model, out
