"""Materialise a JSON case into the frames the client takes, run the real client, canonicalise tables."""
from __future__ import annotations

import copy
import hashlib
import os

import numpy as np
import pandas as pd

from vf.gen import ELECTION_ID

KEYS = {
    "state_data": ["postal_code"],
    "county_data": ["postal_code", "county_fips"],
    "classification_data": ["postal_code", "county_classification"],
    "district_data": ["postal_code", "district"],
    "unit_data": ["postal_code", "geographic_unit_fips"],
}
AGG_TABLE = {
    "postal_code": "state_data",
    "county_fips": "county_data",
    "county_classification": "classification_data",
    "district": "district_data",
    "unit": "unit_data",
}
AGGREGATE_ORDER = ["postal_code", "district", "county_classification", "county_fips"]


def is_district_office(office):
    return office[:1] in ("H", "Y", "Z")


def level_keys(office, agg):
    """Key columns of the table for aggregate `agg` (the client always adds the office's default levels)."""
    if agg == "unit":
        return ["postal_code", "geographic_unit_fips"]
    base = ["postal_code", "district"] if is_district_office(office) else ["postal_code"]
    return sorted(set(base + [agg]), key=AGGREGATE_ORDER.index)


def make_config(case):
    office = case["office"]
    aggs = ["postal_code", "county_classification", "county_fips", "unit"]
    fes = ["postal_code", "county_fips", "county_classification"]
    if is_district_office(office):
        aggs.insert(1, "district")
        fes.append("district")
    return {
        case.get("election_id", ELECTION_ID): [
            {
                "office": office,
                "states": list(case["states"]),
                "geographic_unit_types": [case["gut"]],
                "historical_election": list(case.get("historical_election", [])),
                "features": ["x1", "x2"],
                "aggregates": aggs,
                "fixed_effect": fes,
                # `ptr_alias`: estimands whose baseline lives in another column (baseline_<e>_prev) than the one named
                # after them; the frame then also carries a decoy baseline_<e> column with different numbers
                "baseline_pointer": {e: (e + "_prev" if e in case.get("ptr_alias", []) else e) for e in ("dem", "gop", "turnout")},
            }
        ]
    }


def make_frames(case):
    vt = float if case.get("float_votes") else "int64"
    # `foreign`: baseline rows (and feed rows) of a state that is NOT in the office's `states` list of the config - a
    # national baseline file used for an office that is on the ballot in some states only
    units = case["units"] + case.get("foreign", [])
    pre = pd.DataFrame(
        {
            "postal_code": [u["st"] for u in units],
            "geographic_unit_fips": [u["id"] for u in units],
            "county_fips": [u["county"] for u in units],
            "county_classification": [u["cls"] for u in units],
            "geographic_unit_type": [case["gut"].split("-")[0]] * len(units),
            "baseline_dem": np.array([u["bd"] for u in units], dtype=vt),
            "baseline_gop": np.array([u["bg"] for u in units], dtype=vt),
            "baseline_turnout": np.array([u["bd"] + u["bg"] + u["bo"] for u in units], dtype=vt),
            "x1": np.array([u["x1"] for u in units], dtype=float),
            "x2": np.array([u["x2"] for u in units], dtype=float),
        }
    )
    if is_district_office(case["office"]):
        pre.insert(3, "district", [u["dist"] for u in units])
    for e in case.get("ptr_alias", []):
        col = "baseline_" + e
        pre[col + "_prev"] = pre[col]
        pre[col] = (np.round(pre[col].astype(float) * 1.7) + 13).astype(pre[col].dtype)
    rows = []
    nan_cells = []  # (row index, column): a feed row whose count for one estimand has not arrived yet
    for u in units:
        f = u.get("feed")
        if f is not None:
            if f.get("nan") in ("dem", "gop"):
                nan_cells.append((len(rows), "results_" + f["nan"]))
            rows.append((u["st"], u["id"], f["pev"], f["rd"], f["rg"], f["rd"] + f["rg"] + f["ro"]))
    for e in case.get("extra", []):
        rows.append((e["st"], e["id"], e["pev"], e["rd"], e["rg"], e["rd"] + e["rg"] + e["ro"]))
    if case.get("feed_rev"):
        rows = rows[::-1]
        nan_cells = [(len(rows) - 1 - i, c) for i, c in nan_cells]
    cur = pd.DataFrame(
        rows,
        columns=["postal_code", "geographic_unit_fips", "percent_expected_vote", "results_dem", "results_gop", "results_turnout"],
    )
    for c in ("results_dem", "results_gop", "results_turnout"):
        cur[c] = cur[c].astype(vt)
    cur["percent_expected_vote"] = cur["percent_expected_vote"].astype(float)
    for i, c in nan_cells:
        cur[c] = cur[c].astype(float)
        cur.loc[i, c] = np.nan
    if case.get("versions") is not None:
        cur["last_modified"] = "2024-11-05T21:00:00-05:00"  # the feed's own time stamp column (as in the stored versions)
    return pre, cur


def versions_frame(case):
    """Earlier versions of the feed (case['versions']: rows id, pev, rd, rg, ro, minute) as the stored results file
    would hold them."""
    st_of = {u["id"]: u["st"] for u in case["units"]}
    rows = [
        {
            "postal_code": st_of[v["id"]],
            "geographic_unit_fips": v["id"],
            "percent_expected_vote": float(v["pev"]),
            "results_dem": v["rd"],
            "results_gop": v["rg"],
            "results_turnout": v["rd"] + v["rg"] + v["ro"],
            "last_modified": pd.Timestamp("2024-11-05 19:00:00") + pd.Timedelta(minutes=int(v["minute"])),
        }
        for v in case["versions"]
    ]
    return pd.DataFrame(rows, columns=["postal_code", "geographic_unit_fips", "percent_expected_vote", "results_dem", "results_gop", "results_turnout", "last_modified"])


class _versions_patch:
    """While active, the client's VersionedDataHandler reads the version history from the case instead of S3
    (everything after the read - estimands, sorting, the margin estimates - is the real handler)."""

    def __init__(self, case):
        self.case = case

    def __enter__(self):
        import elexmodel.client as cm
        from elexmodel.handlers.data.Estimandizer import Estimandizer
        from elexmodel.handlers.data.VersionedData import VersionedDataHandler

        frame = versions_frame(self.case)

        class InMemoryVersions(VersionedDataHandler):
            def __init__(self, election_id, office_id, geographic_unit_type, estimands=["margin"], start_date=None, end_date=None, sample=2, tzinfo="America/New_York"):
                self.election_id, self.office_id, self.geographic_unit_type = election_id, office_id, geographic_unit_type
                self.estimands, self.start_date, self.end_date, self.sample, self.tz = estimands, start_date, end_date, sample, tzinfo

            def get_versioned_results(self, filepath=None):
                if frame.empty:
                    self.data = None
                    return None
                data, _ = Estimandizer().add_estimand_results(frame.copy(), self.estimands, False)
                self.data = data.sort_values("last_modified")
                return self.data

        self.cm, self.old = cm, cm.VersionedDataHandler
        cm.VersionedDataHandler = InMemoryVersions
        return self

    def __exit__(self, *a):
        self.cm.VersionedDataHandler = self.old
        return False


def request_kwargs(case):
    r = case["req"]
    kw = dict(
        pi_method=r["pi"],
        aggregates=list(r["aggregates"]),
        features=list(r["features"]),
        fixed_effects=copy.deepcopy(r["fe"]),
        handle_unreporting=r["hu"],
        save_output=list(r.get("save_output", [])),
    )
    if r.get("lhs") or r.get("rhs") or r.get("stop"):
        kw.update(lhs_called_contests=list(r["lhs"]), rhs_called_contests=list(r["rhs"]), stop_model_call=list(r["stop"]))
    return kw


class Run:
    def __init__(self):
        self.ok = False
        self.exc = None
        self.tables = None
        self.client = None


def run_case(case, client=None, frames=None, keep_client=True, args=None):
    """Run ModelClient.get_estimates on the case.  Returns a Run; exceptions are captured, not swallowed."""
    from elexmodel.client import ModelClient

    r = Run()
    if client is None:
        client = ModelClient()
    r.client = client if keep_client else None
    pre, cur = frames if frames is not None else make_frames(case)
    req = case["req"]
    if case.get("versions") is not None:
        with _versions_patch(case):
            return _run(case, client, r, pre, cur, args)
    return _run(case, client, r, pre, cur, args)


def call_arguments(case):
    """The argument objects of one get_estimates call (estimands, levels, config, model parameters, keyword lists):
    built fresh from the case; a caller that wants to pass THE SAME objects to several calls keeps the result."""
    req = case["req"]
    return {
        "estimands": list(req["estimands"]),
        "alphas": list(req["alphas"]),
        "raw_config": make_config(case),
        "model_parameters": copy.deepcopy(req["mp"]),
        "kwargs": request_kwargs(case),
    }


def _run(case, client, r, pre, cur, args=None):
    req = case["req"]
    a = args if args is not None else call_arguments(case)
    try:
        res = client.get_estimates(
            cur,
            case.get("election_id", ELECTION_ID),
            case["office"],
            a["estimands"],
            a["alphas"],
            req["thr"],
            case["gut"],
            raw_config=a["raw_config"],
            preprocessed_data=pre,
            model_parameters=a["model_parameters"],
            **a["kwargs"],
        )
        r.tables = {k: v.copy() for k, v in res.items()}
        r.ok = True
    except Exception as e:  # recorded and classified by the property, never ignored
        r.exc = e
    return r


# ---- canonicalisation ---------------------------------------------------------------------------------------
def canon(df, keys):
    """Rows sorted by key columns, columns by name, numeric columns as float64."""
    df = df.copy()
    for c in df.columns:
        if pd.api.types.is_bool_dtype(df[c]) or pd.api.types.is_numeric_dtype(df[c]):
            df[c] = df[c].astype("float64")
    ks = [k for k in keys if k in df.columns]
    df = df[sorted(df.columns)]
    if ks:
        df = df.sort_values(ks, kind="mergesort")
    return df.reset_index(drop=True)


def table_digest(tables, office):
    h = hashlib.sha256()
    for name in sorted(tables):
        t = tables[name]
        keys = KEYS.get(name, [])
        if name not in ("unit_data", "nat_sum_data", "state_data") and is_district_office(office):
            keys = sorted(set(keys + ["district"]), key=lambda k: (AGGREGATE_ORDER + ["geographic_unit_fips"]).index(k))
        if name == "state_data" and is_district_office(office):
            keys = ["postal_code", "district"]
        c = canon(t, keys)
        h.update(name.encode())
        h.update(",".join(c.columns).encode())
        for col in c.columns:
            v = c[col].to_numpy()
            if v.dtype == np.float64:
                h.update(np.ascontiguousarray(v).tobytes())
            else:
                h.update("|".join(map(str, v)).encode())
    return h.hexdigest()


def frames_equal_bitwise(a, b):
    """Compare two canonicalised frames: same columns, same shape, values equal bit for bit (NaN == NaN)."""
    if list(a.columns) != list(b.columns):
        return False, f"columns differ: {sorted(set(a.columns) ^ set(b.columns))}"
    if a.shape != b.shape:
        return False, f"shape {a.shape} vs {b.shape}"
    for c in a.columns:
        x, y = a[c].to_numpy(), b[c].to_numpy()
        if x.dtype == np.float64 and y.dtype == np.float64:
            eq = (x == y) | (np.isnan(x) & np.isnan(y))
        else:
            eq = np.array([(p == q) or (p != p and q != q) for p, q in zip(x, y)], dtype=bool)
        if not eq.all():
            i = int(np.argmin(eq))
            return False, f"column {c} row {i}: {x[i]!r} vs {y[i]!r}"
    return True, ""


def tmp_root():
    base = os.environ.get("VERIF_TMP", "/tmp")
    return base
