"""Reference models written from the property statements (never importing the code under test)."""
from __future__ import annotations

import math
from fractions import Fraction

from vf.drive import is_district_office, level_keys

EXPECTED = "expected"
UNEXPECTED = "unexpected"
BLOCK = "non-modeled: blocklisted"
ZERO = "non-modeled: zero baseline"
STRANGE = "non-modeled: strange turnout factor"
OUT_T = "non-modeled: strange turnout factor modeled"
OUT_M = "non-modeled: strange margin change modeled"


def request_params(case):
    req = case["req"]
    mp = req.get("mp", {})
    return {
        "margin_mode": "margin" in req["estimands"],
        "thr": req["thr"],
        "hu": req["hu"],
        "tfl": mp.get("turnout_factor_lower", 0.5),
        "tfu": mp.get("turnout_factor_upper", 2.0),
        "ub": set(mp.get("unit_blocklist", [])),
        "sb": set(mp.get("postal_code_blocklist", [])),
    }


def parse_unexpected(case, uid):
    """county / district of a unit that is not in the baseline, from the documented id layout."""
    comps = uid.split("_")
    d = "district" in case["gut"]
    county = comps[1] if d and len(comps) > 1 else comps[0]
    dist = comps[0] if is_district_office(case["office"]) else None
    return county, dist


def categorise(case, outlier_ids=None):
    """One record per unit that takes part in the run, with its reference category and reporting flag.

    `outlier_ids`: dict id -> category for units an enabled outlier model flagged (taken from the run: the
    property statement does not define the outlier model's own decision)."""
    p = request_params(case)
    outlier_ids = outlier_ids or {}
    recs = []
    for u in case["units"]:
        f = u.get("feed")
        if f is None:
            if p["hu"] == "drop":
                continue
            f = {"pev": 0, "rd": 0, "rg": 0, "ro": 0}
            absent = True
        else:
            absent = False
        # a feed row whose count for ONE estimand is missing (NaN cell): only generated for the conformal estimators
        nan_col = f.get("nan")
        if nan_col is not None and nan_col in case["req"]["estimands"]:
            if p["hu"] == "drop":
                # the whole row is dropped from the model's data; the unit is then passed through like a unit that
                # has no baseline (its county / district come from its id), without a count for that estimand
                county, dist = parse_unexpected(case, u["id"])
                rt = f["rd"] + f["rg"] + f["ro"]
                res = {"dem": f["rd"], "gop": f["rg"], "turnout": rt, "margin": f["rd"] - f["rg"], "weights": rt}
                res[nan_col] = None
                recs.append(
                    {"id": u["id"], "st": u["st"], "county": county, "cls": None, "dist": dist, "baseline": False, "absent": False,
                     "cat": UNEXPECTED, "reasons": [UNEXPECTED], "above": f["pev"] >= p["thr"], "reporting": 0, "pev": f["pev"],
                     "res": res, "bw": None, "tf": None, "b": None, "nan_cell": nan_col}
                )
                continue
            # policy `zero`: the missing count is 0 and the unit counts as not reporting at all
            f = dict(f, pev=0, _turnout=f["rd"] + f["rg"] + f["ro"], **{"rd" if nan_col == "dem" else "rg": 0})
        bt = u["bd"] + u["bg"] + u["bo"]
        bw = (u["bd"] + u["bg"]) if p["margin_mode"] else bt
        rt = f.get("_turnout", f["rd"] + f["rg"] + f["ro"])  # the feed's turnout column is its own number
        rw = (f["rd"] + f["rg"]) if p["margin_mode"] else rt
        above = f["pev"] >= p["thr"]
        tf = (rw / bw) if bw != 0 else 0.0
        reasons = []
        if u["id"] in p["ub"] or u["st"] in p["sb"]:
            reasons.append(BLOCK)
        if math.isclose(bw, 0, abs_tol=1e-8):
            reasons.append(ZERO)
        if above and (tf <= p["tfl"] or tf >= p["tfu"]):
            reasons.append(STRANGE)
        if reasons:
            cat = reasons[0]
        elif above and u["id"] in outlier_ids:
            cat = outlier_ids[u["id"]]
            reasons.append(cat)
        else:
            cat = EXPECTED
        recs.append(
            {
                "id": u["id"],
                "st": u["st"],
                "county": u["county"],
                "cls": u["cls"],
                "dist": u.get("dist"),
                "baseline": True,
                "absent": absent,
                "cat": cat,
                "reasons": reasons,
                "above": above,
                "reporting": 1 if (cat == EXPECTED and above) else 0,
                "pev": f["pev"],
                "res": {"dem": f["rd"], "gop": f["rg"], "turnout": rt, "margin": f["rd"] - f["rg"], "weights": rw},
                "bw": bw,
                "tf": tf,
                "b": {"dem": u["bd"], "gop": u["bg"], "turnout": bt},
            }
        )
    # baseline rows of a state outside the config's `states` are not part of the baseline: their feed rows are
    # passed through like any unit that is not in the baseline
    foreign = [dict(id=u["id"], st=u["st"], **{k: u["feed"][k] for k in ("pev", "rd", "rg", "ro")}) for u in case.get("foreign", []) if u.get("feed") is not None]
    for e in list(case.get("extra", [])) + foreign:
        county, dist = parse_unexpected(case, e["id"])
        rt = e["rd"] + e["rg"] + e["ro"]
        rw = (e["rd"] + e["rg"]) if p["margin_mode"] else rt
        recs.append(
            {
                "id": e["id"],
                "st": e["st"],
                "county": county,
                "cls": None,
                "dist": dist,
                "baseline": False,
                "absent": False,
                "cat": UNEXPECTED,
                "reasons": [UNEXPECTED],
                "above": e["pev"] >= p["thr"],
                "reporting": 0,
                "pev": e["pev"],
                "res": {"dem": e["rd"], "gop": e["rg"], "turnout": rt, "margin": e["rd"] - e["rg"], "weights": rw},
                "bw": None,
                "tf": None,
                "b": None,
            }
        )
    return recs


COL_OF_KEY = {"postal_code": "st", "county_fips": "county", "county_classification": "cls", "district": "dist"}


def group_key(rec, keys):
    """Key tuple of the group the unit is attributable to at a level, or None if it is attributable to none.
    Classification-level tables hold modelled units only (statement C01/C02, mechanism note)."""
    if "county_classification" in keys and rec["cat"] != EXPECTED:
        return None
    out = []
    for k in keys:
        v = rec[COL_OF_KEY[k]]
        if v is None:
            return None
        out.append(v)
    return tuple(out)


def ref_groups(recs, keys):
    """key -> list of records"""
    g = {}
    for r in recs:
        k = group_key(r, keys)
        if k is not None:
            g.setdefault(k, []).append(r)
    return g


def round_half_even(x):
    return float(round(x))


def weighted_median_exact(values, weights, margin=Fraction(1, 100000)):
    """Exact weighted median (smallest v whose cumulative weight exceeds W/2) and whether it is unique with
    margin: no prefix sum within margin*W of W/2."""
    pairs = sorted(zip(values, weights))
    W = sum(w for _, w in pairs)
    half = W / 2
    acc = 0
    med = None
    decidable = True
    i = 0
    n = len(pairs)
    while i < n:
        v = pairs[i][0]
        j = i
        while j < n and pairs[j][0] == v:
            acc += pairs[j][1]
            j += 1
        if abs(acc - half) < margin * W:
            decidable = False
        if med is None and acc > half:
            med = v
        i = j
    return med, decidable
