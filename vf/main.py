import argparse
import os
import sys


def main():
    ap = argparse.ArgumentParser()
    ap.add_argument("prop")
    ap.add_argument("--tier", default=os.environ.get("VERIF_TIER", "quick"), choices=["quick", "thorough"])
    ap.add_argument("--replay", default=None)
    ap.add_argument("--seed", type=int, default=None)
    a = ap.parse_args()
    seed = a.seed if a.seed is not None else int(os.environ.get("VERIF_SEED", "1") or 1)
    from vf import runner

    name = a.prop.lower()
    try:
        if a.replay:
            rc = runner.run_replay_file(name, a.replay)
        else:
            rc = runner.run_check(name, a.tier, seed)
    except SystemExit:
        raise
    except BaseException as e:  # harness failure, never a verdict
        import traceback

        traceback.print_exc()
        print(f"HARNESS-ERROR {type(e).__name__}: {e}", file=sys.stderr)
        rc = 2
    sys.exit(rc)


if __name__ == "__main__":
    main()
