"""Offline harness for HistoricalModelClient.get_historical_evaluation.

The historical client reads ./config/<id>.json and ./data/<id>/<office>/data_<type>.csv relative to the current
working directory before falling back to S3, so a temp cwd with generated files drives it offline.
"""
from __future__ import annotations

import copy
import json
import os
import shutil
import tempfile

import pandas as pd

from vf.drive import make_config, make_frames, request_kwargs

HIST_ID = "2026-11-03_ZZ_G"
CUR_ID = "2030-11-05_ZZ_G"


def write_tree(case, root, hist_results=None):
    """hist_results: optional dict unit id -> (dem, gop, other) overriding the historical results on file."""
    cfg_cur = make_config(dict(case, election_id=CUR_ID, historical_election=[HIST_ID]))
    cfg_hist = make_config(dict(case, election_id=HIST_ID))
    os.makedirs(os.path.join(root, "config"), exist_ok=True)
    with open(os.path.join(root, "config", f"{CUR_ID}.json"), "w") as f:
        json.dump(cfg_cur, f)
    with open(os.path.join(root, "config", f"{HIST_ID}.json"), "w") as f:
        json.dump(cfg_hist, f)
    pre, _ = make_frames(case)
    res = []
    for u in case["units"]:
        d, g, o = u["final"]
        if hist_results and u["id"] in hist_results:
            d, g, o = hist_results[u["id"]]
        res.append((d, g, d + g + o))
    pre["results_dem"] = [r[0] for r in res]
    pre["results_gop"] = [r[1] for r in res]
    pre["results_turnout"] = [r[2] for r in res]
    d = os.path.join(root, "data", HIST_ID, case["office"])
    os.makedirs(d, exist_ok=True)
    pre.to_csv(os.path.join(d, f"data_{case['gut']}.csv"), index=False)


def current_frame(case):
    rows = [(u["st"], u["id"], float(u["feed"]["pev"])) for u in case["units"] if u.get("feed") is not None]
    return pd.DataFrame(rows, columns=["postal_code", "geographic_unit_fips", "percent_expected_vote"])


def run_historical(case, hist_results=None):
    """Returns (ok, result-or-exception).  result = {hist id: {"evaluation": ..., "estimates": {table: df}}}"""
    from elexmodel.client import HistoricalModelClient

    req = case["req"]
    root = tempfile.mkdtemp(prefix="vf_hist_", dir=os.environ.get("VERIF_TMP", "/tmp"))
    old = os.getcwd()
    try:
        write_tree(case, root, hist_results)
        os.chdir(root)
        client = HistoricalModelClient()
        kw = request_kwargs(case)
        kw["aggregates"] = [a for a in kw["aggregates"]]
        try:
            out = client.get_historical_evaluation(
                current_frame(case),
                CUR_ID,
                case["office"],
                list(req["estimands"]),
                list(req["alphas"]),
                req["thr"],
                case["gut"],
                model_parameters=copy.deepcopy(req["mp"]),
                **kw,
            )
            return True, out
        except Exception as e:
            return False, e
    finally:
        os.chdir(old)
        shutil.rmtree(root, ignore_errors=True)
