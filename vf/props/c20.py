"""C20 - a failed or inaccurate quantile-regression solve is retried, not fatal.

Fault enumeration.  For every generated election the un-faulted run is executed once while every
QuantileRegressionSolver.fit call that comes from ConformalElectionModel.fit_model is recorded (bound arguments,
defaults applied).  Then for every position k of the F fits of that run (1 median + 2 per alpha, per estimand) and
every failure kind the same case is run again with a fault inside the k-th fit:

  solver_error       cvxpy.error.SolverError raised from inside fit (in _fit / _fit_with_regularization, i.e. after
                     validation and weight normalisation, before any coefficient is stored)
  warning_as_error   a UserWarning raised as an exception at the same place (what an "error" warnings filter turns
                     an inaccuracy warning into)
  inaccurate_status  only where the fit really goes through cvxpy (lambda_ > 0): the status of the solution cvxpy
                     got from the solver is changed to optimal_inaccurate at cvxpy's own seam
                     (SolvingChain.invert), so cvxpy itself issues its real "Solution may be inaccurate" warning
                     and the repository's own warnings filter has to turn it into the exception that reaches the
                     retry branch.

Only third-party seams are wrapped (elex-solver, cvxpy, scipy.stats.bootstrap as seen from math_utils); every
wrapper is restored in a finally block.
"""
from __future__ import annotations

import copy
import inspect
import sys

import numpy as np

from vf import gen
from vf.drive import canon, frames_equal_bitwise, run_case
from vf.props import common
from vf.runner import exc_signature, hyp_run

ID = "C20"
LEVEL = "fault_enumeration"
RULE = (
    "Generated elections (nonparametric and gaussian estimators, lambda_ in {0, 0.5}, 1-2 estimands, 1-2 alphas, "
    "covariates / fixed effects, G and H offices, outlier models off) are run once un-faulted while every "
    "QuantileRegressionSolver.fit call made through ConformalElectionModel.fit_model is recorded (F = estimands x "
    "(1 + 2 x alphas) fits). Then for EVERY position k in 1..F and EVERY kind in {SolverError raised inside fit, "
    "UserWarning raised inside fit, and - where the fit goes through cvxpy (lambda_>0) - a real cvxpy "
    "'optimal_inaccurate' status so that cvxpy issues its own warning} the case is re-run with that single fault in "
    "the k-th fit. Oracle: the faulted run completes; the fit call right after the faulted one is made on the same "
    "solver object with array-equal X, y, weights, identical effective taus, lambda_, fit_intercept, "
    "regularize_intercept, n_feat_ignore_reg and normalize_weights=False; the returned tables have the same names, "
    "columns, row keys and unit categories as the un-faulted run; for lambda_==0 the values are bit-identical when "
    "a control (the same fit done directly with and without normalisation) gives bit-identical coefficients, "
    "within 1 vote / 1e-6 relative when the control agrees to 1e-6, and are not compared when the control "
    "disagrees (solver degeneracy, counted). Non-trivial: every (case, k, kind). Distinct = (position class "
    "median/lower/upper, estimand index, alpha index, kind, estimator, lambda class)."
)
ASSUMPTIONS = [
    "outlier models disabled so that the only QuantileRegressionSolver fits of a run are those of fit_model",
    "the fault is a single failure of the first attempt; the retry itself is not made to fail",
    "SolverError / UserWarning are injected at every position as the statement quantifies, although for lambda_==0 the "
    "installed elex-solver solves with scipy/HiGHS and cannot raise either; the real cvxpy warning path "
    "(inaccurate_status) exists only for lambda_>0 and is enumerated only there",
    "for lambda_>0 no value clause: un-normalised weights legitimately change the relative strength of the penalty",
    "gaussian: scipy.stats.bootstrap as referenced by elexmodel.utils.math_utils is given a fixed generator when the "
    "caller passes none, so that the un-faulted and the faulted run are comparable (run-to-run variation of the "
    "scale bootstrap is C12's subject, finding F06); winsorize is not generated (cost)",
    "add_intercept is True for every model the client can build, so a retry that leaves fit_intercept at the solver's "
    "default (True) is indistinguishable from one that passes it",
    "aggregate rows are compared with a tolerance of one vote per unit of the election in the (rare) branch where the "
    "control coefficients agree to 1e-6 but not bit for bit (each unit prediction is rounded separately)",
]
FLOOR = {"quick": 12, "thorough": 25}

KINDS = ("solver_error", "warning_as_error", "inaccurate_status")
KEY_COLS = ["postal_code", "district", "county_classification", "county_fips", "geographic_unit_fips"]
CMP_FIELDS = ("x", "y", "taus", "weights", "lambda_", "fit_intercept", "regularize_intercept", "n_feat_ignore_reg")


def parts(tier):
    return [{"name": "faults", "n": 32 if tier == "quick" else 500}]


# ---- generator ---------------------------------------------------------------------------------------------
@gen.st.composite
def _strategy(draw):
    case = draw(
        gen.election_case(
            estimators=("nonparametric", "gaussian"),
            offices=("G", "G", "H"),
            max_states=2,
            max_counties=3,
            max_other=8,
            slack=(0, 10),
            alphas_pool=(0.5, 0.7, 0.8, 0.9),
            max_alphas=2,
            outliers=(False,),
            allow_state_blocklist=False,
        )
    )
    req = case["req"]
    mp = req["mp"]
    mp.pop("winsorize", None)
    lam = draw(gen.st.sampled_from([None, 0, 0.5, 0.5]))
    mp.pop("lambda_", None)
    if lam is not None:
        mp["lambda_"] = lam
    if len(req["aggregates"]) > 2:
        req["aggregates"] = req["aggregates"][:1] + req["aggregates"][-1:]
    return case


STRATEGY = _strategy()


# ---- third-party seams: recorder and fault injector ------------------------------------------------------------
def _snap(a):
    return None if a is None else np.array(a, copy=True)


def _eff_taus(t):
    if isinstance(t, (float, int, np.floating, np.integer)) and not isinstance(t, bool):
        return [float(t)]
    return [float(v) for v in t]


class Seams:
    """Context manager: records fit calls coming from fit_model and injects at most one fault into the k-th one."""

    def __init__(self, fault=None):
        self.fault = fault  # (k, kind[, inner]) or None; inner = "first" | "last" inner solve of a fit with several taus
        self.inner_total = 1
        self.inner_seen = 0
        self.calls = []
        self.other_fit_calls = 0
        self.armed = None
        self.fired = False
        self.unfired = False
        self.injected = None
        self._restore = []

    # -- patching helpers
    def _patch(self, owner, name, new):
        had = name in owner.__dict__
        old = owner.__dict__.get(name)
        setattr(owner, name, new)
        self._restore.append((owner, name, had, old))

    def __enter__(self):
        import cvxpy
        from cvxpy.reductions.solvers.solving_chain import SolvingChain
        from elexsolver.QuantileRegressionSolver import QuantileRegressionSolver as QRS

        from elexmodel.utils import math_utils

        H = self
        orig_fit = QRS.fit
        orig_inner = QRS._fit
        orig_inner_reg = QRS._fit_with_regularization
        orig_invert = SolvingChain.invert
        orig_boot = math_utils.bootstrap
        sig = inspect.signature(orig_fit)

        def fit(solver, *args, **kwargs):
            fr = sys._getframe(1)
            if fr.f_code.co_name != "fit_model" or not fr.f_code.co_filename.endswith("ConformalElectionModel.py"):
                H.other_fit_calls += 1
                return orig_fit(solver, *args, **kwargs)
            try:
                ba = sig.bind(solver, *args, **kwargs)
                ba.apply_defaults()
                a = ba.arguments
                rec = {
                    "solver": solver,
                    "x": _snap(a["x"]),
                    "y": _snap(a["y"]),
                    "taus": _eff_taus(a["taus"]),
                    "weights": _snap(a["weights"]),
                    "lambda_": a["lambda_"],
                    "fit_intercept": a["fit_intercept"],
                    "regularize_intercept": a["regularize_intercept"],
                    "n_feat_ignore_reg": a["n_feat_ignore_reg"],
                    "normalize_weights": a["normalize_weights"],
                }
            except TypeError as e:  # the real fit raises the same TypeError below
                rec = {"solver": solver, "unbindable": str(e), "keywords": sorted(kwargs)}
            H.calls.append(rec)
            idx = len(H.calls)
            mine = H.fault is not None and idx == H.fault[0] and not H.fired
            if mine:
                H.armed = H.fault[1]
                H.inner_total = len(rec.get("taus", [0])) or 1
                H.inner_seen = 0
            try:
                return orig_fit(solver, *args, **kwargs)
            finally:
                if mine and H.armed is not None:
                    H.armed = None
                    H.unfired = True

        def fire_raise():
            if H.armed in ("solver_error", "warning_as_error"):
                H.inner_seen += 1
                inner = H.fault[2] if H.fault is not None and len(H.fault) > 2 else "first"
                if inner == "last" and H.inner_seen < H.inner_total:
                    return
                kind, H.armed, H.fired = H.armed, None, True
                if kind == "solver_error":
                    H.injected = cvxpy.error.SolverError("injected fault: Solver 'CLARABEL' failed.")
                else:
                    H.injected = UserWarning("injected fault: Solution may be inaccurate.")
                raise H.injected

        def _fit(solver, *a, **kw):
            fire_raise()
            return orig_inner(solver, *a, **kw)

        def _fit_with_regularization(solver, *a, **kw):
            fire_raise()
            return orig_inner_reg(solver, *a, **kw)

        def invert(chain, solution, inverse_data):
            s = orig_invert(chain, solution, inverse_data)
            if H.armed == "inaccurate_status":
                H.armed, H.fired = None, True
                if s.status != "optimal":
                    raise RuntimeError(f"harness: un-faulted solve has status {s.status}")
                s.status = cvxpy.settings.OPTIMAL_INACCURATE
            return s

        def bootstrap(*a, **kw):
            if kw.get("random_state") is None and kw.get("rng") is None:
                kw.pop("random_state", None)
                kw["rng"] = np.random.default_rng(20200)
            return orig_boot(*a, **kw)

        try:
            self._patch(QRS, "fit", fit)
            self._patch(QRS, "_fit", _fit)
            self._patch(QRS, "_fit_with_regularization", _fit_with_regularization)
            self._patch(SolvingChain, "invert", invert)
            self._patch(math_utils, "bootstrap", bootstrap)
        except BaseException:
            self.__exit__(None, None, None)
            raise
        return self

    def __exit__(self, *exc):
        while self._restore:
            owner, name, had, old = self._restore.pop()
            if had:
                setattr(owner, name, old)
            else:
                delattr(owner, name)
        return False


def _assert_clean():
    from elexsolver.QuantileRegressionSolver import QuantileRegressionSolver as QRS

    for n in ("fit", "_fit", "_fit_with_regularization"):
        if getattr(QRS, n).__module__ != "elexsolver.QuantileRegressionSolver":
            raise RuntimeError(f"harness: QuantileRegressionSolver.{n} left patched")


# ---- oracle pieces ---------------------------------------------------------------------------------------------
def _arr_eq(a, b):
    if a is None or b is None:
        return a is None and b is None
    return a.shape == b.shape and a.dtype == b.dtype and bool(np.array_equal(a, b, equal_nan=True))


def _diff_fields(a, b, fields=CMP_FIELDS):
    out = []
    for f in fields:
        if f in ("x", "y", "weights"):
            if not _arr_eq(a[f], b[f]):
                out.append(f)
        elif f == "taus":
            if a[f] != b[f]:
                out.append(f)
        else:
            if type(a[f]) is not type(b[f]) and not (isinstance(a[f], (int, float)) and isinstance(b[f], (int, float))):
                out.append(f)
            elif a[f] != b[f]:
                out.append(f)
    return out


def _describe(rec, f):
    v = rec[f]
    if isinstance(v, np.ndarray):
        return f"array{v.shape} sum={float(np.sum(v)):.6g}"
    return repr(v)


def positions(case, calls):
    """(class, estimand index, alpha index) of every fit of the un-faulted run."""
    req = case["req"]
    out = []
    ei = -1
    for rec in calls:
        if "unbindable" in rec:
            raise RuntimeError(f"harness: unexpected first-attempt fit {rec.get('unbindable')}")
        if len(rec["taus"]) != 1:
            # a fit that solves several quantiles at once (not what the current code does, but a legitimate structure)
            out.append(("bounds", max(ei, 0), None))
            continue
        tau = rec["taus"][0]
        if tau == 0.5:
            ei += 1
            out.append(("median", ei, None))
        else:
            alpha = 1 - 2 * tau if tau < 0.5 else 2 * tau - 1
            ai = int(np.argmin([abs(alpha - a) for a in req["alphas"]]))
            if abs(req["alphas"][ai] - alpha) > 1e-9 or ei < 0:
                raise RuntimeError(f"harness: tau {tau} matches no requested alpha {req['alphas']}")
            out.append(("lower" if tau < 0.5 else "upper", ei, ai))
    return out


def control(rec):
    """The faulted fit done directly (un-patched solver) with and without weight normalisation."""
    from elexsolver.QuantileRegressionSolver import QuantileRegressionSolver as QRS

    _assert_clean()
    res = []
    for nw in (True, False):
        q = QRS()
        q.fit(
            rec["x"].copy(),
            rec["y"].copy(),
            taus=list(rec["taus"]),
            weights=rec["weights"].copy(),
            lambda_=rec["lambda_"],
            fit_intercept=rec["fit_intercept"],
            regularize_intercept=rec["regularize_intercept"],
            n_feat_ignore_reg=rec["n_feat_ignore_reg"],
            normalize_weights=nw,
        )
        res.append(np.asarray(q.coefficients, dtype=float))
    a, b = res
    if a.shape == b.shape and np.array_equal(a, b):
        return "exact"
    if a.shape == b.shape and np.all(np.abs(a - b) <= 1e-6 * np.maximum(1.0, np.maximum(np.abs(a), np.abs(b)))):
        return "close"
    return "differs"


def _keys_of(t):
    return [k for k in KEY_COLS if k in t.columns]


def compare_structure(base, got):
    if sorted(base) != sorted(got):
        return f"table names {sorted(got)} vs un-faulted {sorted(base)}"
    for name in sorted(base):
        a, b = base[name], got[name]
        if sorted(a.columns) != sorted(b.columns):
            return f"{name}: columns differ {sorted(set(a.columns) ^ set(b.columns))}"
        ks = _keys_of(a)
        ca, cb = canon(a, ks), canon(b, ks)
        ka = [tuple(r) for r in ca[ks].itertuples(index=False, name=None)]
        kb = [tuple(r) for r in cb[ks].itertuples(index=False, name=None)]
        if ka != kb:
            return f"{name}: row keys differ ({len(ka)} vs {len(kb)} rows; first difference {sorted(set(ka) ^ set(kb), key=str)[:3]})"
        if "unit_category" in ca.columns and list(ca["unit_category"]) != list(cb["unit_category"]):
            i = next(i for i, (p, q) in enumerate(zip(ca["unit_category"], cb["unit_category"])) if p != q)
            return f"{name}: unit_category of {ka[i]} is {cb['unit_category'][i]!r}, un-faulted {ca['unit_category'][i]!r}"
    return None


def compare_values(base, got, mode, n_units):
    """mode 'exact': bit for bit.  mode 'close': 1 vote / 1e-6 relative on prediction columns, exact elsewhere."""
    for name in sorted(base):
        ks = _keys_of(base[name])
        ca, cb = canon(base[name], ks), canon(got[name], ks)
        if mode == "exact":
            ok, why = frames_equal_bitwise(ca, cb)
            if not ok:
                return f"{name}: {why}"
            continue
        votes = 1.0 if name == "unit_data" else float(max(1, n_units))
        for c in ca.columns:
            x, y = ca[c].to_numpy(), cb[c].to_numpy()
            if x.dtype != np.float64 or y.dtype != np.float64:
                if list(x) != list(y):
                    return f"{name}: column {c} differs"
                continue
            both_nan = np.isnan(x) & np.isnan(y)
            if c.startswith(("pred_", "lower_", "upper_")):
                tol = votes + 1e-6 * np.maximum(np.abs(x), np.abs(y))
                bad = ~both_nan & ~(np.abs(x - y) <= tol)
            else:
                bad = ~both_nan & ~(x == y)
            if bad.any():
                i = int(np.argmax(bad))
                return f"{name}: column {c} row {i}: {y[i]!r} vs un-faulted {x[i]!r}"
    return None


# ---- one case --------------------------------------------------------------------------------------------------
def lam_of(case):
    return case["req"]["mp"].get("lambda_", 0)


def lam_class(case):
    return "lambda>0" if lam_of(case) > 0 else "lambda=0"


def kinds_for(case):
    return KINDS if lam_of(case) > 0 else KINDS[:2]


def baseline(case, ctx):
    """Un-faulted run with the recorder.  Returns (run, calls, positions) or None."""
    with Seams() as h:
        run = run_case(case, keep_client=False)
    _assert_clean()
    if not run.ok:
        if common.is_gate_error(run.exc):
            ctx.label("unfaulted:too_few_units")
            return None
        ctx.label("unfaulted:exception")
        ctx.violation("exception", f"un-faulted run: {type(run.exc).__name__}: {run.exc}", case, sig=exc_signature(run.exc))
        return None
    if h.other_fit_calls:
        raise RuntimeError("harness: QuantileRegressionSolver.fit called from outside fit_model although outlier models are off")
    return run, h.calls, positions(case, h.calls)


def _summary(case, k, kind, pos, F):
    req = case["req"]
    return {
        "pi": req["pi"],
        "office": case["office"],
        "estimands": req["estimands"],
        "alphas": req["alphas"],
        "lambda_": lam_of(case),
        "features": req["features"],
        "fixed_effects": req["fe"],
        "n_units": len(case["units"]),
        "fits_in_run": F,
        "fault": {"k": k, "kind": kind, "position": pos[0], "estimand_index": pos[1], "alpha_index": pos[2]},
    }


def evaluate_fault(case, base, k, kind, ctx, control_cache, inner="first"):
    """Runs the case with one fault in the k-th fit and applies the oracle."""
    run0, calls0, pos = base
    F = len(calls0)
    p = pos[k - 1]
    req = case["req"]
    stored = copy.deepcopy(case)
    stored["fault"] = {"k": k, "kind": kind, "inner": inner}
    where = f"fault {kind} in fit {k}/{F} ({p[0]}, estimand {req['estimands'][p[1]]}" + (f", alpha {req['alphas'][p[2]]})" if p[2] is not None else ")")

    ctx.evaluated()
    ctx.label("kind:" + kind)
    ctx.label("pos:" + p[0])
    ctx.label("pi:" + req["pi"])
    ctx.label(lam_class(case))
    ctx.nontrivial(f"{p[0]}|e{p[1]}|a{p[2]}|{kind}|{req['pi']}|{lam_class(case)}", _summary(case, k, kind, p, F))

    with Seams((k, kind, inner)) as h:
        run = run_case(case, keep_client=False)
    _assert_clean()
    if h.unfired or not h.fired:
        raise RuntimeError(f"harness: {where} was never injected (calls seen: {len(h.calls)})")
    # the run is deterministic up to the fault: the faulted attempt is the k-th fit of the un-faulted run
    first = h.calls[k - 1]
    if "unbindable" in first or _diff_fields(calls0[k - 1], first) or first["normalize_weights"] != calls0[k - 1]["normalize_weights"]:
        raise RuntimeError(f"harness: fit {k} of the faulted run is not fit {k} of the un-faulted run")

    if not run.ok:
        e = run.exc
        if e is h.injected or len(h.calls) == k:
            # no fit call followed the faulted one: the failure itself ended the run
            ctx.label("outcome:fault_fatal")
            sig = type(e).__name__ if e is h.injected or kind == "inaccurate_status" else exc_signature(e)
            ctx.violation("not_retried", f"{where}: the failure aborted the run ({type(e).__name__}: {e})", stored, sig=sig)
        else:
            ctx.label("outcome:retry_failed")
            ctx.violation("retry_failed", f"{where}: run aborted with {type(e).__name__}: {e}", stored, sig=exc_signature(e))
        return

    # the call following the faulted one must be the retry of that fit
    retry = h.calls[k] if len(h.calls) > k else None
    if retry is None or retry["solver"] is not first["solver"]:
        if kind == "inaccurate_status":
            ctx.label("outcome:inaccuracy_not_escalated")
            ctx.violation(
                "inaccuracy_not_escalated",
                f"{where}: cvxpy reported optimal_inaccurate and issued its warning, but the fit was not re-run "
                f"({len(h.calls)} fit calls, un-faulted run {F}); the inaccurate solution was used",
                stored,
                sig="no_retry",
            )
        else:
            ctx.label("outcome:fault_swallowed")
            ctx.violation("not_retried", f"{where}: run completed but no second fit on the same solver followed", stored, sig="no_retry")
        return
    ctx.label("outcome:retried")
    if len(h.calls) != F + 1:
        ctx.label("fit_calls_not_F_plus_1")
    bad = _diff_fields(first, retry)
    if retry["normalize_weights"] is not False:
        bad.append("normalize_weights")
    if bad:
        detail = "; ".join(
            f"{f}: retry {_describe(retry, f)} vs failed attempt {_describe(first, f)}" if f != "normalize_weights" else f"normalize_weights={retry['normalize_weights']!r}"
            for f in bad
        )
        ctx.violation("retry_args", f"{where}: {detail}", stored, sig="retry_args:" + ",".join(bad))
        return

    # only THAT fit is re-run: every other fit of the run is made exactly as in the un-faulted run
    if len(h.calls) == F + 1:
        for j in range(F):
            if j == k - 1:
                continue
            other = h.calls[j if j < k else j + 1]
            ref_call = calls0[j]
            diff = [] if "unbindable" in other else _diff_fields(ref_call, other)
            if "unbindable" not in other and other["normalize_weights"] != ref_call["normalize_weights"]:
                diff.append("normalize_weights")
            if diff:
                ctx.violation(
                    "other_fit_changed",
                    f"{where}: fit {j + 1} of the run (not the failed one) differs from the un-faulted run in {diff} "
                    f"(normalize_weights {other.get('normalize_weights')!r} vs {ref_call['normalize_weights']!r})",
                    stored,
                    sig="other_fit_changed:" + ",".join(diff),
                )
                return

    why = compare_structure(run0.tables, run.tables)
    if why:
        ctx.violation("tables_structure", f"{where}: {why}", stored, sig="tables_structure")
        return

    if lam_of(case) > 0:
        ctx.label("values:not_asserted_lambda>0")
        return
    if k not in control_cache:
        control_cache[k] = control(calls0[k - 1])
    mode = control_cache[k]
    ctx.label("control:" + mode)
    if mode == "differs":
        ctx.label("values:skipped_degenerate_lp")
        return
    why = compare_values(run0.tables, run.tables, mode, len(case["units"]) + len(case.get("extra", [])))
    ctx.label("values:compared_" + mode)
    if why:
        ctx.violation("tables_values", f"{where}: control coefficients {mode}, but {why}", stored, sig="tables_values:" + mode)


def check_case(case, ctx, only=None):
    case = {k: v for k, v in case.items() if k != "fault"}
    base = baseline(case, ctx)
    if base is None:
        return
    F = len(base[1])
    ctx.label(f"fits_per_run:{F}")
    cache = {}
    if only is not None:
        k, kind = only[0], only[1]
        inner = only[2] if len(only) > 2 else "first"
        if not (1 <= k <= F) or kind not in kinds_for(case):
            ctx.label("replay:fault_position_not_in_case")
            return
        evaluate_fault(case, base, k, kind, ctx, cache, inner)
        return
    for k in range(1, F + 1):
        for kind in kinds_for(case):
            evaluate_fault(case, base, k, kind, ctx, cache)
            if len(base[1][k - 1].get("taus", [0])) > 1 and kind != "inaccurate_status":
                # a fit that solves several quantiles: also fail its LAST inner solve (earlier ones already stored)
                evaluate_fault(case, base, k, kind, ctx, cache, "last")


def run_part(name, seed, n, tier, ctx, si, sc):
    hyp_run(STRATEGY, lambda case: check_case(case, ctx), seed, n, tier)


def replay(case, ctx):
    f = case.get("fault")
    check_case(case, ctx, only=(int(f["k"]), f["kind"], f.get("inner", "first")) if f else None)


def facts(case):
    f = case.get("fault") or {}
    return {"pi": case["req"]["pi"], "lambda_class": lam_class(case), "kind": f.get("kind"), "k": f.get("k")}


def shrink_candidates(case):
    f = case.get("fault")
    if f and f["k"] > 1:
        # the same kind of fault at the first fit of the run, then structural reduction
        c = copy.deepcopy(case)
        c["fault"]["k"] = 1
        yield c
    yield from common.generic_shrink_candidates(case)
