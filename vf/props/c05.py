"""C05 - with no covariates the model is uniform swing by the weighted median."""
from __future__ import annotations

from fractions import Fraction

import numpy as np

from vf import gen, ref
from vf.props import common
from vf.runner import hyp_run

ID = "C05"
LEVEL = "exploration"
RULE = (
    "Generated elections run through the client with features=[] and fixed_effects={} (nonparametric and gaussian; "
    "estimands from turnout/dem/gop; integer baselines; residual patterns with exact ties, one dominant unit, all-equal "
    "residuals, swings near -40%; nonreporting units with partial counts above and below the swing prediction; "
    "outlier models on/off; in a quarter of the cases the config's baseline_pointer sends dem/gop to another column while "
    "a decoy column named after the estimand is present; in a quarter a few feed rows lack the count of an estimand that was not requested; in a quarter the baseline file also carries heavy, differently swinging units of a state outside the office's config). Oracle: R = modelled reporting units by the reference categorisation of the case; m = weighted median of "
    "(counted - (baseline+1))/(baseline+1) with weights baseline+1 in exact rational arithmetic; every nonreporting "
    "unit's prediction == round_half_even(max((baseline+1)(1+m), partial count)) (differing by 1 allowed only when the "
    "un-rounded reference is within 1e-6 of a half integer). Cases whose median is not unique with margin 1e-5 of the "
    "total weight are skipped (an LP solver may return either neighbour) and counted. Non-trivial: decidable, >=3 "
    "distinct residuals, >=1 nonreporting unit where the floor does not bind and >=1 where it does. Distinct = "
    "(estimator, estimand, pattern, structure hash)."
)
ASSUMPTIONS = ["the weighted median must be unique with margin (otherwise the case is skipped and counted)", "feed unit ids unique; integer votes"]
FLOOR = {"quick": 30, "thorough": 250}


def parts(tier):
    return [{"name": "e2e", "n": 800 if tier == "quick" else 16000}]


@gen.st.composite
def _strategy(draw):
    st = gen.st
    case = draw(
        gen.election_case(
            estimators=("nonparametric", "gaussian"),
            allow_features=False,
            allow_fe=False,
            min_nonrep=2,
            statuses=(gen.N, gen.N, gen.NH, gen.NH, gen.N0, gen.A, gen.Z, gen.B, gen.T_HI),
            alphas_pool=(0.5, 0.7, 0.8),
            max_alphas=1,
            max_other=10,
        )
    )
    case["req"]["aggregates"] = ["postal_code", "unit"] if case["office"] == "G" else ["postal_code", "district", "unit"]
    pattern = draw(st.sampled_from(["free", "free", "ties", "all_equal", "dominant", "negative", "hamlets"]))
    rep = [u for u in case["units"] if u["status"] in (gen.R, gen.RB)]
    if pattern in ("ties", "all_equal"):
        chosen = rep if pattern == "all_equal" else [u for u in rep if draw(st.booleans())]
        for u in chosen:
            u["feed"].update(rd=u["bd"] + 1, rg=u["bg"] + 1, ro=max(u["bo"] - 1, 0))
    elif pattern == "dominant" and rep:
        u = rep[draw(st.integers(0, len(rep) - 1))]
        k = 200
        f = u["feed"]
        u.update(bd=u["bd"] * k, bg=u["bg"] * k, bo=u["bo"] * k)
        f.update(rd=f["rd"] * k, rg=f["rg"] * k, ro=f["ro"] * k)
    elif pattern == "negative":
        for u in rep:
            u["feed"].update(rd=int(u["bd"] * 0.62), rg=int(u["bg"] * 0.62), ro=int(u["bo"] * 0.62))
    elif pattern == "hamlets" and 9 <= len(rep) <= 26:
        # two giants of almost equal size whose order decides the median, and many hamlets more than 1000x smaller:
        # the median is the larger giant's swing only if every unit really carries its baseline as its weight
        a, b = rep[0], rep[1]
        a.update(bd=30000, bg=20000, bo=0)
        a["feed"].update(rd=33000, rg=22000, ro=0)
        b.update(bd=29820, bg=19880, bo=0)
        b["feed"].update(rd=30416, rg=20278, ro=0)
        for u in rep[2:]:
            u.update(bd=6, bg=4, bo=0)
            u["feed"].update(rd=5, rg=3, ro=0)
    case["pattern"] = pattern
    # the baseline of dem / gop may live in a column the config points to (baseline_pointer), next to a decoy column
    # named after the estimand itself
    if draw(st.integers(0, 3)) == 0:
        case["ptr_alias"] = [e for e in ("dem", "gop") if draw(st.booleans())] or ["dem"]
    # a count missing in a column that was NOT requested (e.g. gop still empty while dem is modelled) says nothing
    # about the requested estimand: the unit stays what it is
    other = [e for e in ("dem", "gop") if e not in case["req"]["estimands"]]
    if other and draw(st.integers(0, 3)) == 0:
        fed = [u for u in case["units"] if u.get("feed") is not None]
        for u in fed[:: max(1, len(fed) // draw(st.integers(1, 4)))][:4]:
            u["feed"]["nan"] = other[0]
        case["nan_unrequested"] = other[0]
    # a baseline file that also carries another state (not in the office's `states`): those rows are no baseline units
    if draw(st.integers(0, 3)) == 0:
        dn = case["units"][0].get("dist")
        foreign = []
        for k in range(draw(st.integers(2, 5))):
            bd, bg, bo = 40000 + 1000 * k, 30000, 500
            uid = (f"{dn}_901_q{k}" if dn is not None else f"901_q{k}") if "precinct" in case["gut"] else (f"{dn}_90{k}" if dn is not None else f"90{k}")
            county = "901" if "precinct" in case["gut"] else f"90{k}"
            pev = 100 if k else 40
            fr = 1.6 if k else 0.3
            foreign.append({"id": uid, "st": "QQ", "county": county, "cls": case["units"][0]["cls"], "dist": dn, "bd": bd, "bg": bg, "bo": bo, "x1": 0.0, "x2": 0.0,
                            "status": "foreign", "feed": {"pev": pev, "rd": int(bd * fr), "rg": int(bg * fr), "ro": int(bo * fr)}})
        case["foreign"] = foreign
    return case


STRATEGY = _strategy()


def check_case(case, ctx):
    ctx.evaluated()
    rr = common.run_and_reference(case, ctx)
    if rr is None:
        return
    run, recs = rr
    req = case["req"]
    ut = run.tables["unit_data"]
    by_id = {r["id"]: r for r in recs}
    cats = common.unit_category_series(ut)
    if cats is None:
        return
    ctx.label("pattern:" + case.get("pattern", "?"))
    if any(e in case.get("ptr_alias", []) for e in req["estimands"]):
        ctx.label("baseline_through_config_pointer")
    # R = the modelled reporting units, from the reference categorisation of the case (eligibility rules of C09; the
    # outlier models' own flags are the observed ones)
    fit_ids = [r["id"] for r in recs if r["baseline"] and r["cat"] == ref.EXPECTED and r["reporting"]]
    non_ids = [r["id"] for r in recs if r["baseline"] and r["cat"] == ref.EXPECTED and not r["reporting"]]
    if not fit_ids or not non_ids:
        return
    if case.get("foreign"):
        ctx.label("baseline_rows_of_a_state_outside_the_config")
    if case.get("nan_unrequested"):
        ctx.label("missing_count_in_an_unrequested_column")
    row = {uid: i for i, uid in enumerate(ut["geographic_unit_fips"])}
    any_nontrivial = False
    for e in req["estimands"]:
        vals, wts = [], []
        for uid in fit_ids:
            r = by_id[uid]
            w = r["b"][e] + 1
            vals.append(Fraction(r["res"][e] - w, w))
            wts.append(Fraction(w))
        m, decidable = ref.weighted_median_exact(vals, wts)
        if not decidable:
            ctx.label("skipped:median_not_unique_with_margin")
            continue
        binds = free = 0
        for uid in non_ids:
            r = by_id[uid]
            w = r["b"][e] + 1
            raw = Fraction(w) * (1 + m)
            partial = r["res"][e]
            target = max(raw, Fraction(partial))
            if target == Fraction(partial) and raw < partial:
                binds += 1
            else:
                free += 1
            expect = round(target)  # Fraction.__round__ rounds half to even
            got = float(ut[f"pred_{e}"].iloc[row[uid]])
            if got != float(expect):
                frac = float(target - (target.numerator // target.denominator))
                near_half = abs(frac - 0.5) < 1e-6
                if not (near_half and abs(got - float(expect)) <= 1):
                    ctx.violation(
                        "not_uniform_swing",
                        f"{uid} pred_{e}={got} but (baseline+1)(1+m) = {float(raw):.6f} with m={float(m):.9f} (weighted median over {len(fit_ids)} units), partial {partial} -> expected {expect}",
                        case,
                        sig=f"not_uniform_swing|{req['pi']}",
                    )
                    return
        if binds:
            ctx.label("floor_binds")
        if len(set(vals)) >= 3 and binds >= 1 and free >= 1:
            any_nontrivial = True
    if any_nontrivial:
        ctx.nontrivial([req["pi"], req["estimands"], case.get("pattern"), common.structure_signature(case, recs)], common.summarize_case(case, recs) | {"pattern": case.get("pattern")})


def run_part(name, seed, n, tier, ctx, si, sc):
    hyp_run(STRATEGY, lambda case: check_case(case, ctx), seed, n, tier)


def replay(case, ctx):
    check_case(case, ctx)


def facts(case):
    return {"pi": case["req"]["pi"], "pattern": case.get("pattern")}


def shrink_candidates(case):
    for c in common.generic_shrink_candidates(case):
        if not c["req"]["features"] and not c["req"]["fe"]:
            yield c
