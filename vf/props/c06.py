"""C06 - bootstrap intervals are ordered, nested by level, and margins stay in [-1, 1]."""
from __future__ import annotations

import numpy as np

from vf import boot, gen, ref
from vf.drive import AGG_TABLE, level_keys
from vf.props import common
from vf.runner import exc_signature, hyp_run

ID = "C06"
LEVEL = "exploration"
RULE = (
    "(a) rank arithmetic, exhaustive grid: _get_quantiles(alpha) for every B in [2, Bmax] x alpha on a grid in (0,1): "
    "0 <= lower rank <= upper rank <= 1 and ranks monotone in alpha (nesting). (b) end-to-end bootstrap runs on "
    "generated elections (B in {2,3,10,40}, 2-3 sorted levels, lambda in {cv,0,0.1,10}, fixed effects, district "
    "offices, partial reporters with pev 50-99.9): unit lower<=upper; aggregate rows lower<pred<upper, |pred_margin|<=1, "
    "pred_turnout>=0 finite; b-interval contains a-interval for a<b at unit and aggregate level. (c) model-level with "
    "generated draw matrices respecting the producer's invariants (skewed, constant, tied draws): the same ordering and "
    "nesting on the real interval functions. Non-trivial: (b) >=1 nonreporting unit and >=2 levels; (c) non-constant "
    "draws and >=2 levels. Distinct = (B, alpha set, structure hash)."
)
ASSUMPTIONS = [
    "unobserved-bound parameters (y/z_unobserved_*) are left at their defaults",
    "(c) trusts the invariants |errors_B_1| <= errors_B_3 etc. as what compute_bootstrap_errors produces (clipping of y to [-1,1])",
]
FLOOR = {"quick": 60, "thorough": 400}


def parts(tier):
    if tier == "quick":
        return [{"name": "ranks", "n": 16}, {"name": "e2e", "n": 256}, {"name": "model", "n": 4000}]
    return [{"name": "ranks", "n": 16}, {"name": "e2e", "n": 4000}, {"name": "model", "n": 60000}]


def run_ranks(tier, ctx, si, sc):
    from elexmodel.models.BootstrapElectionModel import BootstrapElectionModel

    m = BootstrapElectionModel({"features": ["baseline_normalized_margin"]})
    Bmax = 3000 if tier == "quick" else 20000
    K = 2000 if tier == "quick" else 1000
    alphas = np.array(sorted(set([(i + 1) / (K + 1) for i in range(K)] + [0.5, 0.7, 0.8, 0.9, 0.95, 0.99, 0.999])))
    bad = None
    n = 0
    for B in range(2 + si, Bmax + 1, sc):
        m.B = B
        lo, up = m._get_quantiles(alphas)  # vectorised over alpha: the function is plain numpy arithmetic
        n += len(alphas)
        ok = (lo >= 0) & (lo <= up) & (up <= 1)
        mono = (np.diff(lo) <= 0).all() and (np.diff(up) >= 0).all()
        if not ok.all() or not mono:
            i = int(np.argmin(ok)) if not ok.all() else 0
            bad = {"B": B, "alpha": float(alphas[i]), "lower_q": float(lo[i]), "upper_q": float(up[i]), "monotone": bool(mono)}
            ctx.violation("invalid_rank", str(bad), bad, sig="invalid_rank")
            break
        if B % 97 == 0 or B < 12:
            ctx.nontrivial(f"ranks|{B}", {"part": "ranks", "B": B, "alphas": len(alphas)} if B < 4 else None)
    ctx.evaluated(n)
    ctx.label("rank_pairs", n)
    ctx.extra["cov_exhaustive_subspace"] = f"_get_quantiles on B in [2,{Bmax}] x {len(alphas)} alpha values, all pairs"


E2E = gen.election_case(
    estimators=("bootstrap",),
    Bs=(2, 3, 10, 40),
    alphas_pool=(0.5, 0.7, 0.8, 0.9, 0.95),
    max_alphas=3,
    min_nonrep=1,
    statuses=(gen.N, gen.N, gen.N, gen.NH, gen.N0, gen.A, gen.Z, gen.B, gen.T_HI),
    lopsided=0.3,  # units whose baseline margin is +-0.99: a small swing pushes the raw prediction outside [-1, 1]
)


def check_e2e(case, ctx):
    ctx.evaluated()
    if "unit" not in case["req"]["aggregates"]:
        case["req"]["aggregates"] = case["req"]["aggregates"] + ["unit"]
    rr = common.run_and_reference(case, ctx)
    if rr is None:
        return
    run, recs = rr
    req = case["req"]
    alphas = sorted(req["alphas"])
    viol = lambda kind, detail: ctx.violation(kind, detail, case, sig=kind)  # noqa: E731
    ut = run.tables["unit_data"]
    for a in alphas:
        lo, up = ut[f"lower_{a}_margin"].to_numpy(float), ut[f"upper_{a}_margin"].to_numpy(float)
        if not (lo <= up).all():
            i = int(np.argmax(lo > up))
            viol("unit_lower_above_upper", f"{ut['geographic_unit_fips'].iloc[i]} alpha={a}: [{lo[i]}, {up[i]}]")
            return
    for a, b in zip(alphas, alphas[1:]):
        if not ((ut[f"lower_{b}_margin"] <= ut[f"lower_{a}_margin"]) & (ut[f"upper_{a}_margin"] <= ut[f"upper_{b}_margin"])).all():
            viol("unit_not_nested", f"alpha {a} vs {b}")
            return
    for agg in req["aggregates"]:
        if agg == "unit":
            continue
        t = run.tables[AGG_TABLE[agg]]
        pm, pt = t["pred_margin"].to_numpy(float), t["pred_turnout"].to_numpy(float)
        if not (np.isfinite(pm).all() and (np.abs(pm) <= 1 + 1e-12).all()):
            viol("margin_out_of_range", f"{AGG_TABLE[agg]}: pred_margin {pm[~(np.abs(pm) <= 1)][:3]}")
            return
        if not (np.isfinite(pt).all() and (pt >= 0).all()):
            viol("turnout_invalid", f"{AGG_TABLE[agg]}: pred_turnout {pt[~(pt >= 0)][:3]}")
            return
        for a in alphas:
            lo, up = t[f"lower_{a}_margin"].to_numpy(float), t[f"upper_{a}_margin"].to_numpy(float)
            if not ((lo < pm) & (pm < up)).all():
                i = int(np.argmin((lo < pm) & (pm < up)))
                viol("agg_not_ordered", f"{AGG_TABLE[agg]} row {i} alpha={a}: lower {lo[i]} pred {pm[i]} upper {up[i]}")
                return
        for a, b in zip(alphas, alphas[1:]):
            if not ((t[f"lower_{b}_margin"] <= t[f"lower_{a}_margin"]) & (t[f"upper_{a}_margin"] <= t[f"upper_{b}_margin"])).all():
                viol("agg_not_nested", f"{AGG_TABLE[agg]} alpha {a} vs {b}")
                return
    ctx.label("B:" + str(req["mp"].get("B")))
    ctx.label("lambda:" + str(req["mp"].get("lambda_", "cv")))
    n_non = sum(1 for r in recs if r["cat"] == ref.EXPECTED and not r["reporting"])
    partial = sum(1 for r in recs if r["cat"] == ref.EXPECTED and not r["reporting"] and 50 <= r["pev"] < 100)
    if partial:
        ctx.label("has_partial_reporter_50_100")
    if n_non >= 1 and len(alphas) >= 2:
        ctx.nontrivial([req["mp"].get("B"), alphas, common.structure_signature(case, recs)], common.summarize_case(case, recs))


MODEL = boot.model_case(with_calls=False)


def check_model(case, ctx):
    ctx.evaluated()
    model, rep, non, unx, agg = boot.build(case)
    alphas = case["alphas"]
    viol = lambda kind, detail: ctx.violation(kind, detail, case, sig=kind)  # noqa: E731
    try:
        prev = None
        for a in alphas:
            if len(non):
                pi = model.get_unit_prediction_intervals(rep, non, a, "margin")
                lo, up = np.asarray(pi.lower).reshape(-1), np.asarray(pi.upper).reshape(-1)
                if not (lo <= up).all():
                    viol("unit_lower_above_upper", f"alpha={a}: {lo[lo > up][:3]} > {up[lo > up][:3]}")
                    return
                if prev is not None and not ((lo <= prev[0]) & (prev[1] <= up)).all():
                    viol("unit_not_nested", f"alpha {prev[2]} vs {a}")
                    return
                prev = (lo, up, a)
        _, t = boot.top_level(case, lhs=[], rhs=[], stop=[], model_and_frames=(model, rep, non, unx, agg))
    except Exception as e:
        ctx.violation("exception", f"{type(e).__name__}: {e}", case, sig=exc_signature(e))
        return
    pm, pt = t["pred_margin"].to_numpy(float), t["pred_turnout"].to_numpy(float)
    if not (np.abs(pm) <= 1 + 1e-12).all() or not (pt >= 0).all():
        viol("range", f"pred_margin {pm} pred_turnout {pt}")
        return
    for a in alphas:
        lo, up = t[f"lower_{a}"].to_numpy(float), t[f"upper_{a}"].to_numpy(float)
        if not ((lo < pm) & (pm < up)).all():
            viol("agg_not_ordered", f"alpha={a}: {lo} {pm} {up}")
            return
    for a, b in zip(alphas, alphas[1:]):
        if not ((t[f"lower_{b}"] <= t[f"lower_{a}"]) & (t[f"upper_{a}"] <= t[f"upper_{b}"])).all():
            viol("agg_not_nested", f"alpha {a} vs {b}: {t[[f'lower_{a}', f'lower_{b}', f'upper_{a}', f'upper_{b}']].to_dict('list')}")
            return
    spread = any(c["spread"] > 0 and c["n_non"] > 0 for c in case["contests"])
    if spread and len(alphas) >= 2:
        ctx.nontrivial(
            ["model", case["B"], alphas, case["district"], case["ties"], [(c["n_rep"], c["n_non"], c["n_unexp"], c["mean"], c["spread"], c["skew"]) for c in case["contests"]]],
            {"part": "model", "B": case["B"], "alphas": alphas, "contests": case["contests"][:2]},
        )


def run_part(name, seed, n, tier, ctx, si, sc):
    if name == "ranks":
        run_ranks(tier, ctx, si, sc)
    elif name == "e2e":
        hyp_run(E2E, lambda case: check_e2e(case, ctx), seed, n, tier)
    else:
        hyp_run(MODEL, lambda case: check_model(case, ctx), seed, n, tier)


def replay(case, ctx):
    if "units" in case:
        check_e2e(case, ctx)
    elif "contests" in case:
        check_model(case, ctx)
    elif "B" in case:
        from elexmodel.models.BootstrapElectionModel import BootstrapElectionModel

        m = BootstrapElectionModel({"features": ["baseline_normalized_margin"]})
        m.B = case["B"]
        lo, up = m._get_quantiles(case["alpha"])
        if not (0 <= lo <= up <= 1):
            ctx.violation("invalid_rank", f"{case}: {lo} {up}", case, sig="invalid_rank")


def facts(case):
    return {"part": "e2e" if "units" in case else "model"}


def shrink_candidates(case):
    if "units" in case:
        yield from common.generic_shrink_candidates(case)
