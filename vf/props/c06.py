"""C06 - bootstrap intervals are ordered, nested by level, and margins stay in [-1, 1]."""
from __future__ import annotations

import numpy as np

from vf import boot, gen, ref
from vf.drive import AGG_TABLE, level_keys
from vf.props import common
from vf.runner import exc_signature, hyp_run

ID = "C06"
LEVEL = "exploration"
RULE = (
    "(a) rank arithmetic, exhaustive grid: _get_quantiles(alpha) for every B in [2, Bmax] x alpha on a grid in (0,1): "
    "0 <= lower rank <= upper rank <= 1 and ranks monotone in alpha (nesting). (b) end-to-end bootstrap runs on "
    "generated elections (B in {2,3,4,10,40}, 1-3 sorted levels from 0.05 to 0.95 - low levels make the two quantile ranks meet -, lambda in {cv,0,0.1,10}, fixed effects, district "
    "offices, partial reporters with pev 50-99.9): unit lower<=upper; aggregate rows lower<pred<upper, |pred_margin|<=1, "
    "pred_turnout>=0 finite; b-interval contains a-interval for a<b at unit and aggregate level. (c) model-level with "
    "generated draw matrices respecting the producer's invariants (skewed, constant, tied draws): the same ordering and "
    "nesting on the real interval functions. (d) the end-to-end oracle of (b) on county-level elections run with the "
    "margin extrapolation switched on: earlier versions of the feed are generated for the reporting counties (observed "
    "near / far from the expected-vote level of the outstanding counties, some irregular) and handed to the real "
    "VersionedDataHandler in place of its S3 read, so unit draws are ensembled with extrapolated predictions resting on "
    "many, one or no county. Non-trivial: (b) >=1 nonreporting unit and >=2 levels; (c) non-constant "
    "draws and >=2 levels; (d) the extrapolation produced a prediction for >=1 outstanding unit. Distinct = (B, alpha set, structure hash)."
)
ASSUMPTIONS = [
    "the margin's unobserved bounds (y_unobserved_*) are left at their defaults -1 / 1; the turnout factor's (z_unobserved_*) are varied in a third of the end-to-end cases",
    "(c) trusts the invariants |errors_B_1| <= errors_B_3 etc. as what compute_bootstrap_errors produces (clipping of y to [-1,1])",
]
FLOOR = {"quick": 60, "thorough": 400}


def parts(tier):
    if tier == "quick":
        return [{"name": "ranks", "n": 16}, {"name": "e2e", "n": 256}, {"name": "extrap", "n": 128}, {"name": "model", "n": 4000}]
    return [{"name": "ranks", "n": 16}, {"name": "e2e", "n": 4000}, {"name": "extrap", "n": 2000}, {"name": "model", "n": 60000}]


def run_ranks(tier, ctx, si, sc):
    from elexmodel.models.BootstrapElectionModel import BootstrapElectionModel

    m = BootstrapElectionModel({"features": ["baseline_normalized_margin"]})
    Bmax = 3000 if tier == "quick" else 20000
    K = 2000 if tier == "quick" else 1000
    alphas = np.array(sorted(set([(i + 1) / (K + 1) for i in range(K)] + [0.5, 0.7, 0.8, 0.9, 0.95, 0.99, 0.999])))
    bad = None
    n = 0
    for B in range(2 + si, Bmax + 1, sc):
        m.B = B
        lo, up = m._get_quantiles(alphas)  # vectorised over alpha: the function is plain numpy arithmetic
        n += len(alphas)
        ok = (lo >= 0) & (lo <= up) & (up <= 1)
        mono = (np.diff(lo) <= 0).all() and (np.diff(up) >= 0).all()
        if not ok.all() or not mono:
            i = int(np.argmin(ok)) if not ok.all() else 0
            bad = {"B": B, "alpha": float(alphas[i]), "lower_q": float(lo[i]), "upper_q": float(up[i]), "monotone": bool(mono)}
            ctx.violation("invalid_rank", str(bad), bad, sig="invalid_rank")
            break
        if B % 97 == 0 or B < 12:
            ctx.nontrivial(f"ranks|{B}", {"part": "ranks", "B": B, "alphas": len(alphas)} if B < 4 else None)
    ctx.evaluated(n)
    ctx.label("rank_pairs", n)
    ctx.extra["cov_exhaustive_subspace"] = f"_get_quantiles on B in [2,{Bmax}] x {len(alphas)} alpha values, all pairs"


@gen.st.composite
def _e2e_strategy(draw):
    case = draw(_E2E_BASE)
    # bounds of the not-yet-observed part of a unit's turnout factor (model parameters; the margin bounds stay at their
    # defaults -1 / 1, so the statement's range for the margin is unaffected)
    k = draw(gen.st.integers(0, 5))
    if k == 0:
        case["req"]["mp"]["z_unobserved_upper_bound"] = 2.0
    elif k == 1:
        case["req"]["mp"]["z_unobserved_lower_bound"] = 0.3
    return case


_E2E_BASE = gen.election_case(
    estimators=("bootstrap",),
    Bs=(2, 3, 4, 10, 40),
    alphas_pool=(0.05, 0.2, 0.3, 0.5, 0.7, 0.8, 0.9, 0.95),
    max_alphas=3,
    min_nonrep=1,
    statuses=(gen.N, gen.N, gen.N, gen.NH, gen.N0, gen.A, gen.Z, gen.B, gen.T_HI),
    lopsided=0.3,  # units whose baseline margin is +-0.99: a small swing pushes the raw prediction outside [-1, 1]
)
E2E = _e2e_strategy()


@gen.st.composite
def _extrap_strategy(draw):
    """County-level bootstrap elections with the margin extrapolation switched on: earlier versions of the feed are
    generated for some of the reporting counties (observed near the expected-vote level of an outstanding county or
    far from it; sometimes irregular), so outstanding counties at >= 75% get an extrapolated prediction from many,
    one or no reporting county."""
    st = gen.st
    case = draw(
        gen.election_case(
            estimators=("bootstrap",),
            unit_types=("county",),
            thresholds=(100,),
            max_states=2,
            Bs=(10, 40),
            alphas_pool=(0.5, 0.7, 0.8, 0.9, 0.95),
            max_alphas=2,
            min_nonrep=2,
            statuses=(gen.N, gen.N, gen.N, gen.NH, gen.N0, gen.A),
            allow_extra=False,
            outliers=(False,),
            lopsided=0.2,
        )
    )
    case["req"]["mp"]["extrapolation"] = True
    grid = [30, 55, 78, 82, 93, 96, 99]
    versions = []
    for u in case["units"]:
        f = u.get("feed")
        if f is None or draw(st.integers(0, 2)) == 0:
            continue
        reporting = f["pev"] >= 100
        k = draw(st.integers(1, 3))
        pevs = sorted(set(draw(st.lists(st.sampled_from(grid), min_size=k, max_size=k))))
        pevs = [p for p in pevs if p < f["pev"]]
        irregular = reporting and draw(st.integers(0, 7)) == 0
        for j, p in enumerate(pevs):
            fr = p / min(f["pev"], 100) if f["pev"] else 0
            jd = draw(st.sampled_from([-0.04, -0.01, 0.0, 0.02, 0.05]))
            rd = int(f["rd"] * min(max(fr + jd, 0), 1))
            rg = int(f["rg"] * min(max(fr - jd, 0), 1))
            ro = int(f["ro"] * fr)
            if irregular and j == len(pevs) - 1:
                rd, rg, ro = f["rd"] * 2 + 5, f["rg"] * 2 + 5, f["ro"]  # a later downward revision
            versions.append({"id": u["id"], "pev": p, "rd": rd, "rg": rg, "ro": ro, "minute": 10 * j + draw(st.integers(0, 9))})
    case["versions"] = versions
    return case


EXTRAP = _extrap_strategy()


def check_extrap(case, ctx):
    """The same oracle as the end-to-end part, on runs whose unit draws are ensembled with the extrapolation."""
    from elexmodel.models.BootstrapElectionModel import BootstrapElectionModel

    seen = []
    orig = BootstrapElectionModel._extrapolate_unit_margin

    def spy(self, reporting_units, nonreporting_units):
        out = orig(self, reporting_units, nonreporting_units)
        seen.append((np.asarray(out[0], float).reshape(-1), np.asarray(out[1], float).reshape(-1)))
        return out

    BootstrapElectionModel._extrapolate_unit_margin = spy
    try:
        check_e2e(case, ctx, extrap_seen=seen)
    finally:
        BootstrapElectionModel._extrapolate_unit_margin = orig


def check_e2e(case, ctx, extrap_seen=None):
    ctx.evaluated()
    if "unit" not in case["req"]["aggregates"]:
        case["req"]["aggregates"] = case["req"]["aggregates"] + ["unit"]
    rr = common.run_and_reference(case, ctx)
    if rr is None:
        return
    run, recs = rr
    req = case["req"]
    alphas = sorted(req["alphas"])
    viol = lambda kind, detail: ctx.violation(kind, detail, case, sig=kind)  # noqa: E731
    ut = run.tables["unit_data"]
    for a in alphas:
        lo, up = ut[f"lower_{a}_margin"].to_numpy(float), ut[f"upper_{a}_margin"].to_numpy(float)
        if not (lo <= up).all():
            i = int(np.argmax(lo > up))
            viol("unit_lower_above_upper", f"{ut['geographic_unit_fips'].iloc[i]} alpha={a}: [{lo[i]}, {up[i]}]")
            return
    for a, b in zip(alphas, alphas[1:]):
        if not ((ut[f"lower_{b}_margin"] <= ut[f"lower_{a}_margin"]) & (ut[f"upper_{a}_margin"] <= ut[f"upper_{b}_margin"])).all():
            viol("unit_not_nested", f"alpha {a} vs {b}")
            return
    for agg in req["aggregates"]:
        if agg == "unit":
            continue
        t = run.tables[AGG_TABLE[agg]]
        pm, pt = t["pred_margin"].to_numpy(float), t["pred_turnout"].to_numpy(float)
        if not (np.isfinite(pm).all() and (np.abs(pm) <= 1 + 1e-12).all()):
            viol("margin_out_of_range", f"{AGG_TABLE[agg]}: pred_margin {pm[~(np.abs(pm) <= 1)][:3]}")
            return
        if not (np.isfinite(pt).all() and (pt >= 0).all()):
            viol("turnout_invalid", f"{AGG_TABLE[agg]}: pred_turnout {pt[~(pt >= 0)][:3]}")
            return
        for a in alphas:
            lo, up = t[f"lower_{a}_margin"].to_numpy(float), t[f"upper_{a}_margin"].to_numpy(float)
            if not ((lo < pm) & (pm < up)).all():
                i = int(np.argmin((lo < pm) & (pm < up)))
                viol("agg_not_ordered", f"{AGG_TABLE[agg]} row {i} alpha={a}: lower {lo[i]} pred {pm[i]} upper {up[i]}")
                return
        for a, b in zip(alphas, alphas[1:]):
            if not ((t[f"lower_{b}_margin"] <= t[f"lower_{a}_margin"]) & (t[f"upper_{a}_margin"] <= t[f"upper_{b}_margin"])).all():
                viol("agg_not_nested", f"{AGG_TABLE[agg]} alpha {a} vs {b}")
                return
    ctx.label("B:" + str(req["mp"].get("B")))
    ctx.label("lambda:" + str(req["mp"].get("lambda_", "cv")))
    n_non = sum(1 for r in recs if r["cat"] == ref.EXPECTED and not r["reporting"])
    partial = sum(1 for r in recs if r["cat"] == ref.EXPECTED and not r["reporting"] and 50 <= r["pev"] < 100)
    if partial:
        ctx.label("has_partial_reporter_50_100")
    if extrap_seen is not None:
        # the extrapolation part counts as non-trivial only when the rule really produced a prediction for a unit
        pred = np.concatenate([p for p, _ in extrap_seen]) if extrap_seen else np.array([])
        std = np.concatenate([s_ for _, s_ in extrap_seen]) if extrap_seen else np.array([])
        n_pred = int(np.isfinite(pred).sum())
        n_nostd = int((np.isfinite(pred) & ~np.isfinite(std)).sum())
        if n_pred:
            ctx.label("extrapolated_units", n_pred)
        if n_nostd:
            ctx.label("extrapolated_from_a_single_county")
        if n_pred and n_non >= 1:
            ctx.nontrivial(["extrap", req["mp"].get("B"), alphas, min(n_pred, 3), n_nostd > 0, common.structure_signature(case, recs)], common.summarize_case(case, recs) | {"part": "extrap", "extrapolated_units": n_pred, "from_a_single_county": n_nostd, "versions": len(case["versions"])})
        return
    if n_non >= 1 and len(alphas) >= 2:
        ctx.nontrivial([req["mp"].get("B"), alphas, common.structure_signature(case, recs)], common.summarize_case(case, recs))


MODEL = boot.model_case(with_calls=False, alphas_pool=(0.05, 0.2, 0.3, 0.5, 0.7, 0.8, 0.9, 0.95, 0.99))


def check_model(case, ctx):
    ctx.evaluated()
    model, rep, non, unx, agg = boot.build(case)
    alphas = case["alphas"]
    viol = lambda kind, detail: ctx.violation(kind, detail, case, sig=kind)  # noqa: E731
    try:
        prev = None
        for a in alphas:
            if len(non):
                pi = model.get_unit_prediction_intervals(rep, non, a, "margin")
                lo, up = np.asarray(pi.lower).reshape(-1), np.asarray(pi.upper).reshape(-1)
                if not (lo <= up).all():
                    viol("unit_lower_above_upper", f"alpha={a}: {lo[lo > up][:3]} > {up[lo > up][:3]}")
                    return
                if prev is not None and not ((lo <= prev[0]) & (prev[1] <= up)).all():
                    viol("unit_not_nested", f"alpha {prev[2]} vs {a}")
                    return
                prev = (lo, up, a)
        _, t = boot.top_level(case, lhs=[], rhs=[], stop=[], model_and_frames=(model, rep, non, unx, agg))
    except Exception as e:
        ctx.violation("exception", f"{type(e).__name__}: {e}", case, sig=exc_signature(e))
        return
    pm, pt = t["pred_margin"].to_numpy(float), t["pred_turnout"].to_numpy(float)
    if not (np.abs(pm) <= 1 + 1e-12).all() or not (pt >= 0).all():
        viol("range", f"pred_margin {pm} pred_turnout {pt}")
        return
    for a in alphas:
        lo, up = t[f"lower_{a}"].to_numpy(float), t[f"upper_{a}"].to_numpy(float)
        if not ((lo < pm) & (pm < up)).all():
            viol("agg_not_ordered", f"alpha={a}: {lo} {pm} {up}")
            return
    for a, b in zip(alphas, alphas[1:]):
        if not ((t[f"lower_{b}"] <= t[f"lower_{a}"]) & (t[f"upper_{a}"] <= t[f"upper_{b}"])).all():
            viol("agg_not_nested", f"alpha {a} vs {b}: {t[[f'lower_{a}', f'lower_{b}', f'upper_{a}', f'upper_{b}']].to_dict('list')}")
            return
    spread = any(c["spread"] > 0 and c["n_non"] > 0 for c in case["contests"])
    if spread and len(alphas) >= 2:
        ctx.nontrivial(
            ["model", case["B"], alphas, case["district"], case["ties"], [(c["n_rep"], c["n_non"], c["n_unexp"], c["mean"], c["spread"], c["skew"]) for c in case["contests"]]],
            {"part": "model", "B": case["B"], "alphas": alphas, "contests": case["contests"][:2]},
        )


def run_part(name, seed, n, tier, ctx, si, sc):
    if name == "ranks":
        run_ranks(tier, ctx, si, sc)
    elif name == "e2e":
        hyp_run(E2E, lambda case: check_e2e(case, ctx), seed, n, tier)
    elif name == "extrap":
        hyp_run(EXTRAP, lambda case: check_extrap(case, ctx), seed, n, tier)
    else:
        hyp_run(MODEL, lambda case: check_model(case, ctx), seed, n, tier)


def replay(case, ctx):
    if "versions" in case:
        check_extrap(case, ctx)
    elif "units" in case:
        check_e2e(case, ctx)
    elif "contests" in case:
        check_model(case, ctx)
    elif "B" in case:
        from elexmodel.models.BootstrapElectionModel import BootstrapElectionModel

        m = BootstrapElectionModel({"features": ["baseline_normalized_margin"]})
        m.B = case["B"]
        lo, up = m._get_quantiles(case["alpha"])
        if not (0 <= lo <= up <= 1):
            ctx.violation("invalid_rank", f"{case}: {lo} {up}", case, sig="invalid_rank")


def facts(case):
    return {"part": "e2e" if "units" in case else "model"}


def shrink_candidates(case):
    if "units" in case:
        yield from common.generic_shrink_candidates(case)
