"""C11 - an unexpected unit only adds its own votes."""
from __future__ import annotations

import copy

import numpy as np

from vf import gen, ref
from vf.drive import AGG_TABLE, level_keys, run_case
from vf.props import c02, common
from vf.runner import exc_signature, hyp_run

ID = "C11"
LEVEL = "exploration"
RULE = (
    "Metamorphic pairs: a generated election (as C01, all three estimators, any aggregate list incl. classification "
    "and lists without 'district' for district offices) is run with its feed and with the feed plus ONE extra row "
    "whose id is not in the baseline (state with baseline units; county known/unknown; district known/unknown; pev in "
    "{0,50,100,105}; any votes incl. 0 and two-party 0). Oracle: the second run completes whenever the first does; "
    "unit table = old rows unchanged + one 'unexpected' row with pred=lower=upper=results; vote counts: rows of groups "
    "the unit is attributable to change by exactly +v in results/pred/lower/upper (new group: all == v, reporting 0), "
    "every other row and the classification table bit-identical; bootstrap: other unit rows bit-identical, "
    "pred_turnout' = pred_turnout + w, pred_margin' = (pred_margin*pred_turnout + m)/(pred_turnout + w), bounds equal the "
    "per-group reference aggregator over the retained draws, other groups unchanged within 1e-9 (BLAS re-association). "
    "Non-trivial: v>0 and the unit lands in an existing group with nonreporting units, or creates a new group. "
    "Distinct = (estimator, office, aggregate list, known/new county, known/new district, pev class)."
)
ASSUMPTIONS = [
    "bootstrap: the added unit's state is a config state that has baseline units in the run (a unit from another state adds a contest effect and with it changes every bootstrap draw; that is read as outside the property's domain); the conformal estimators are also given units from a state outside the config",
    "bootstrap float columns of rows that should not change are compared with 1e-9 relative tolerance (appending a row changes matrix shapes and BLAS summation order); everything else bit-for-bit",
    "rounded gaussian bounds: +v exactness assumes no value lies within 1e-9 of a half integer",
]
FLOOR = {"quick": 20, "thorough": 120}


def parts(tier):
    return [{"name": "pairs", "n": 400 if tier == "quick" else 4000}]


@gen.st.composite
def _strategy(draw):
    st = gen.st
    case = draw(gen.election_case(min_nonrep=1, slack=(0, 10), max_other=12))
    if "unit" not in case["req"]["aggregates"]:
        case["req"]["aggregates"] = case["req"]["aggregates"] + ["unit"]
    district = case["office"] in ("H", "Y", "Z")
    # states with at least one baseline unit that takes part in the run
    live_states = sorted({u["st"] for u in case["units"] if u["feed"] is not None or case["req"]["hu"] == "zero"})
    if not live_states:
        live_states = [case["units"][0]["st"]]
    s = live_states[draw(st.integers(0, len(live_states) - 1))]
    # conformal estimators: the unit may also come from a state the election is not configured for ("any state");
    # for the bootstrap a new state adds a contest and is outside the domain (see ASSUMPTIONS)
    new_state = case["req"]["pi"] != "bootstrap" and draw(st.integers(0, 5)) == 0
    if new_state:
        s = "QQ"
    counties = sorted({u["county"] for u in case["units"] if u["st"] == s})
    known_county = draw(st.booleans())
    county = counties[draw(st.integers(0, len(counties) - 1))] if known_county and counties else (f"{gen.STATES.index(s) + 1}77" if s in gen.STATES else "977")
    if district:
        dists = sorted({u["dist"] for u in case["units"] if u["st"] == s})
        known_dist = draw(st.booleans())
        dist = dists[draw(st.integers(0, len(dists) - 1))] if known_dist and dists else ("d7" if dists and dists[0].startswith("d") else "17")
        uid = f"{dist}_{county}_zz"
    else:
        known_dist = None
        uid = f"{county}_zz"
    pev = draw(st.sampled_from([0, 50, 100, 105]))
    votes_kind = draw(st.sampled_from(["normal", "normal", "normal", "zero", "two_party_zero", "large"]))
    if votes_kind == "zero":
        rd, rg, ro = 0, 0, 0
    elif votes_kind == "two_party_zero":
        rd, rg, ro = 0, 0, draw(st.integers(1, 80))
    elif votes_kind == "large":
        rd, rg, ro = draw(st.integers(1000, 50000)), draw(st.integers(1000, 50000)), draw(st.integers(0, 900))
    else:
        rd, rg, ro = draw(st.integers(0, 900)), draw(st.integers(0, 900)), draw(st.integers(0, 60))
    case["added"] = {"id": uid, "st": s, "pev": pev, "rd": rd, "rg": rg, "ro": ro}
    case["added_info"] = {"known_county": bool(known_county and counties), "known_dist": known_dist, "votes": votes_kind, "new_state": new_state}
    return case


STRATEGY = _strategy()


def rows_by_key(df, keys):
    out = {}
    cols = [c for c in df.columns if c not in keys]
    for rec in df.to_dict("records"):
        out[tuple(rec[k] for k in keys)] = {c: rec[c] for c in cols}
    return out, cols


def same(a, b, tol=None):
    if isinstance(a, str) or isinstance(b, str) or a is None or b is None:
        return a == b
    fa, fb = float(a), float(b)
    if np.isnan(fa) and np.isnan(fb):
        return True
    if tol is None:
        return fa == fb
    return abs(fa - fb) <= tol * max(1.0, abs(fa), abs(fb))


def check_case(case, ctx):
    ctx.evaluated()
    A = {k: v for k, v in case.items() if k not in ("added", "added_info")}
    B = copy.deepcopy(A)
    add = case["added"]
    B["extra"] = list(B.get("extra", [])) + [dict(add)]
    req = case["req"]
    pi = req["pi"]
    office = case["office"]
    ctx.label("pi:" + pi)
    ra = run_case(A)
    if not ra.ok:
        if common.is_gate_error(ra.exc):
            ctx.label("base:too_few_units")
        else:
            ctx.label("base:exception:" + type(ra.exc).__name__)
        return
    rb = run_case(B)
    viol = lambda kind, detail, sig=None: ctx.violation(kind, detail, case, sig=sig or kind)  # noqa: E731
    if not rb.ok:
        viol("added_unit_broke_run", f"base run completes; with unexpected unit {add}: {type(rb.exc).__name__}: {rb.exc}", sig=exc_signature(rb.exc))
        return
    if set(ra.tables) != set(rb.tables):
        viol("table_set_changed", f"{sorted(ra.tables)} vs {sorted(rb.tables)}")
        return
    tol = 1e-9 if pi == "bootstrap" else None
    recsB = ref.categorise(B, common.outlier_flags_from_run(B, rb.tables["unit_data"]))
    new_rec = next(r for r in recsB if r["id"] == add["id"])
    v = {e: new_rec["res"][e] for e in req["estimands"]}

    # ---- unit table ---------------------------------------------------------------------------------------
    ua, cols = rows_by_key(ra.tables["unit_data"], ["geographic_unit_fips"])
    ub, colsb = rows_by_key(rb.tables["unit_data"], ["geographic_unit_fips"])
    if sorted(cols) != sorted(colsb):
        viol("unit_columns_changed", f"{sorted(set(cols) ^ set(colsb))}")
        return
    if set(ub) != set(ua) | {(add["id"],)} or len(rb.tables["unit_data"]) != len(ra.tables["unit_data"]) + 1:
        viol("unit_rows", f"expected exactly one new row {add['id']}; new={sorted(set(ub) - set(ua))[:3]} lost={sorted(set(ua) - set(ub))[:3]} n={len(rb.tables['unit_data'])} vs {len(ra.tables['unit_data'])}")
        return
    for k, row in ua.items():
        for c in cols:
            if not same(row[c], ub[k][c]):
                viol("other_unit_changed", f"unit {k[0]} column {c}: {row[c]} -> {ub[k][c]}")
                return
    nr = ub[(add["id"],)]
    if nr.get("unit_category") != "unexpected" or nr.get("postal_code") != add["st"]:
        viol("new_unit_row", f"category={nr.get('unit_category')} state={nr.get('postal_code')}")
        return
    for e in req["estimands"]:
        for c in [f"pred_{e}"] + [f"{s}_{a}_{e}" for a in req["alphas"] for s in ("lower", "upper")]:
            if not same(nr[c], nr[f"results_{e}"]) or not same(nr[f"results_{e}"], v[e]):
                viol("new_unit_row", f"{c}={nr[c]} results={nr[f'results_{e}']} feed={v[e]}")
                return

    # ---- aggregate tables ---------------------------------------------------------------------------------
    landed_existing_with_nonrep = False
    created_group = False
    for agg in req["aggregates"]:
        if agg == "unit":
            continue
        keys = level_keys(office, agg)
        name = AGG_TABLE[agg]
        ta, tb = ra.tables[name], rb.tables[name]
        if any(k not in ta.columns for k in keys) or any(k not in tb.columns for k in keys):
            viol("agg_key_columns", f"{name}: {list(tb.columns)}")
            return
        a_rows, acols = rows_by_key(ta, keys)
        b_rows, bcols = rows_by_key(tb, keys)
        if sorted(acols) != sorted(bcols):
            viol("agg_columns_changed", f"{name}: {sorted(set(acols) ^ set(bcols))}")
            return
        if len(b_rows) != len(tb) or len(a_rows) != len(ta):
            viol("agg_duplicate_keys", f"{name}")
            return
        gk = ref.group_key(new_rec, keys)  # None for the classification level
        expected_keys = set(a_rows) | ({gk} if gk is not None else set())
        if set(b_rows) != expected_keys:
            viol("agg_rows", f"{name}: new={sorted(set(b_rows) - set(a_rows), key=str)[:3]} lost={sorted(set(a_rows) - set(b_rows), key=str)[:3]} expected new={gk if gk not in a_rows else None}")
            return
        bref = None
        for k, rowb in b_rows.items():
            if k != gk:
                for c in acols:
                    if not same(a_rows[k][c], rowb[c], tol if c not in ("reporting",) and not c.startswith("results_") or pi == "bootstrap" else None):
                        viol("other_group_changed", f"{name} {k} column {c}: {a_rows[k][c]} -> {rowb[c]} (added unit belongs to {gk})")
                        return
                continue
            rowa = a_rows.get(k)
            if rowa is None:
                created_group = True
            else:
                members = [r for r in recsB if ref.group_key(r, keys) == k]
                if any(m["cat"] == ref.EXPECTED and not m["reporting"] for m in members):
                    landed_existing_with_nonrep = True
            if pi != "bootstrap":
                for e in req["estimands"]:
                    for c in [f"results_{e}", f"pred_{e}"] + [f"{s}_{a}_{e}" for a in req["alphas"] for s in ("lower", "upper")]:
                        old = float(rowa[c]) if rowa is not None else 0.0
                        if float(rowb[c]) != old + v[e]:
                            viol("not_additive", f"{name} {k} {c}: {old} -> {rowb[c]}, unit adds {v[e]}")
                            return
                if float(rowb["reporting"]) != (float(rowa["reporting"]) if rowa is not None else 0.0):
                    viol("reporting_count_changed", f"{name} {k}: {rowa and rowa['reporting']} -> {rowb['reporting']}")
                    return
            else:
                w = float(new_rec["res"]["weights"])
                m = float(new_rec["res"]["margin"])
                pt_old = float(rowa["pred_turnout"]) if rowa is not None else 0.0
                pm_old = float(rowa["pred_margin"]) if rowa is not None else 0.0
                rm_old = float(rowa["results_margin"]) if rowa is not None else 0.0
                pt_new = float(rowb["pred_turnout"])
                if not common.close(pt_new, pt_old + w, rel=1e-9, abs_=1e-6):
                    viol("turnout_not_additive", f"{name} {k}: pred_turnout {pt_old} -> {pt_new}, unit adds {w}")
                    return
                with np.errstate(all="ignore"):
                    pm_ref = float(np.nan_to_num(np.float64(pm_old * pt_old + m) / np.float64(pt_old + w)))
                    rm_ref = float(np.nan_to_num(np.float64(rm_old * pt_old + m) / np.float64(pt_old + w)))
                if not common.close(float(rowb["pred_margin"]), pm_ref, rel=1e-9, abs_=1e-9):
                    viol("margin_not_additive", f"{name} {k}: pred_margin {pm_old} -> {rowb['pred_margin']} reference {pm_ref}")
                    return
                if not common.close(float(rowb["results_margin"]), rm_ref, rel=1e-9, abs_=1e-9):
                    viol("results_margin_not_additive", f"{name} {k}: results_margin {rm_old} -> {rowb['results_margin']} reference {rm_ref}")
                    return
                for a in req["alphas"]:
                    bref = c02.bootstrap_reference_bounds(B, rb, recsB, keys, tb, a)
                    diff, lq, uq, _, _ = bref[k]
                    pm = float(rowb["pred_margin"])
                    lo_ref = min(pm - float(np.quantile(diff, uq)), pm - 0.001)
                    up_ref = max(pm - float(np.quantile(diff, lq)), pm + 0.001)
                    if not (common.close(float(rowb[f"lower_{a}_margin"]), lo_ref, rel=1e-7, abs_=1e-7) and common.close(float(rowb[f"upper_{a}_margin"]), up_ref, rel=1e-7, abs_=1e-7)):
                        viol("bounds_not_from_own_draws", f"{name} {k} alpha={a}: [{rowb[f'lower_{a}_margin']}, {rowb[f'upper_{a}_margin']}] reference [{lo_ref}, {up_ref}]")
                        return
    info = case.get("added_info", {})
    ctx.label("county:" + ("known" if info.get("known_county") else "new"))
    if info.get("known_dist") is not None:
        ctx.label("district:" + ("known" if info.get("known_dist") else "new"))
    ctx.label("votes:" + str(info.get("votes")))
    if info.get("new_state"):
        ctx.label("state:not_in_config")
    if created_group:
        ctx.label("created_group")
    vpos = any(float(x) != 0 for x in v.values()) or new_rec["res"]["weights"] > 0
    if (vpos and landed_existing_with_nonrep) or created_group:
        ctx.nontrivial(
            [pi, office, req["aggregates"], info.get("known_county"), info.get("known_dist"), add["pev"], created_group],
            {"added_unit": add, "info": info, "base": common.summarize_case(A)},
        )


def run_part(name, seed, n, tier, ctx, si, sc):
    hyp_run(STRATEGY, lambda case: check_case(case, ctx), seed, n, tier)


def replay(case, ctx):
    check_case(case, ctx)


def facts(case):
    req = case["req"]
    return {"pi": req["pi"], "office": case["office"]}


def shrink_candidates(case):
    for c in common.generic_shrink_candidates({k: v for k, v in case.items()}):
        c["added"] = case["added"]
        c["added_info"] = case.get("added_info", {})
        yield c
