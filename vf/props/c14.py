"""C14 - enough reporting units means an estimate; too few means the dedicated error."""
from __future__ import annotations

import copy
import math

import numpy as np
import pandas as pd

from vf import gen
from vf.drive import run_case
from vf.props import common
from vf.runner import exc_signature, hyp_run

ID = "C14"
LEVEL = "exploration"
RULE = (
    "(a1) band at the minimum, observed on the real split: for alpha on a grid in (0,1) and every n in "
    "[min(alpha), min(alpha)+K] the nonparametric model's unit-interval call runs on a synthetic frame with exactly n "
    "reporting rows; the split the code made is read back (n_cal = rows of the returned calibration frame) and "
    "must give n_train>=1, n_cal>=1, alpha*(1+1/n_cal)<=1, finite bounds, no exception; gaussian likewise for n>=7. "
    "(a2) far field: the same arithmetic through the model's own conf-frac function for n up to min+N. "
    "(b) gate iff, end-to-end: generated elections with exactly n modelled reporting units, n-min in {-2..3,10}, "
    "1-3 alphas, three estimators, non-modelled and unexpected units present: the dedicated error iff n < largest "
    "minimum, otherwise finite tables and no other exception; a duplicated reporting id gives the client error. "
    "Non-trivial: |n-min|<=1. Distinct = (estimator, alpha set, n-min) and (alpha, n-min) grid points."
)
ASSUMPTIONS = [
    "outlier models disabled in (b) so that the number of modelled reporting units is exactly the constructed n",
    "(a2) trusts _compute_conf_frac / get_minimum_reporting_units as the code's own arithmetic and requires floor(n*f)>=1 only outside the band that (a1) observes directly",
]
FLOOR = {"quick": 60, "thorough": 300}

USUAL = [0.5, 0.6, 0.7, 0.75, 0.8, 0.85, 0.9, 0.95, 0.99]


def alpha_grid(k):
    g = [round((i + 1) / (k + 1), 6) for i in range(k)]
    g = [a for a in g if a <= 0.992]
    return sorted(set(g + USUAL))


def parts(tier):
    if tier == "quick":
        return [
            {"name": "band", "n": len(alpha_grid(150))},
            {"name": "far", "n": 16},
            {"name": "gate", "n": 960},
        ]
    return [
        {"name": "band", "n": len(alpha_grid(400))},
        {"name": "far", "n": 16},
        {"name": "gate", "n": 5000},
    ]


def synthetic_frames(n, seed, n_non=3):
    rng = np.random.default_rng(seed)
    base = rng.integers(50, 2000, size=n + n_non).astype(float)
    resid = rng.normal(0.05, 0.1, size=n + n_non)
    res = np.round(base * (1 + resid))
    df = pd.DataFrame(
        {
            "postal_code": "AA",
            "geographic_unit_fips": [f"101_p{i}" for i in range(n + n_non)],
            "county_fips": "101",
            "last_election_results_turnout": base + 1,
            "results_turnout": res,
            "baseline_weights": base,
            "unit_category": "expected",
        }
    )
    rep = df.iloc[:n].copy().reset_index(drop=True)
    rep["reporting"] = 1
    rep["residuals_turnout"] = (rep.results_turnout - rep.last_election_results_turnout) / rep.last_election_results_turnout
    non = df.iloc[n:].copy().reset_index(drop=True)
    non["reporting"] = 0
    non["results_turnout"] = 0.0
    return rep, non


def band_point(model_cls, alpha, n, ctx, kind):
    rep, non = synthetic_frames(n, seed=n * 7919 + int(alpha * 1e6) % 1000)
    model = model_cls({"features": [], "fixed_effects": {}})
    case = {"kind": kind, "alpha": alpha, "n": n}
    ctx.evaluated()
    try:
        model.get_unit_predictions(rep, non, "turnout")
        pi = model.get_unit_prediction_intervals(rep, non, alpha, "turnout")
    except Exception as e:
        ctx.violation("split_exception", f"alpha={alpha} n={n}: {type(e).__name__}: {e}", case, sig=exc_signature(e))
        return
    n_cal = len(pi.conformalization)
    n_train = n - n_cal
    lo = np.asarray(pi.lower, dtype=float)
    up = np.asarray(pi.upper, dtype=float)
    if n_train < 1 or n_cal < 1:
        ctx.violation("split_empty", f"alpha={alpha} n={n}: n_train={n_train} n_cal={n_cal}", case, sig="split_empty")
    elif kind == "nonparametric" and alpha * (1 + 1 / n_cal) > 1 + 1e-12:
        ctx.violation("quantile_level_above_one", f"alpha={alpha} n={n} n_cal={n_cal}", case, sig="quantile_level_above_one")
    elif not (np.isfinite(lo).all() and np.isfinite(up).all()):
        ctx.violation("bounds_not_finite", f"alpha={alpha} n={n}: {lo} {up}", case, sig="bounds_not_finite")


def run_band(seed, n, tier, ctx, si, sc):
    from elexmodel.models.GaussianElectionModel import GaussianElectionModel
    from elexmodel.models.NonparametricElectionModel import NonparametricElectionModel

    K = 12 if tier == "quick" else 30
    grid = alpha_grid(150 if tier == "quick" else 400)
    mine = grid[si::sc]
    for alpha in mine:
        m = gen.nonparam_min_units(alpha)
        for n in range(m, m + K + 1):
            band_point(NonparametricElectionModel, alpha, n, ctx, "nonparametric")
            ctx.nontrivial(f"band|{alpha}|{n - m}", {"part": "band", "alpha": alpha, "n": n, "minimum": m} if n == m else None)
    if si == 0:
        for alpha in (0.5, 0.7, 0.9):
            for n in range(7, 7 + (6 if tier == "quick" else 30)):
                band_point(GaussianElectionModel, alpha, n, ctx, "gaussian")
                ctx.nontrivial(f"bandg|{alpha}|{n}")


def run_far(seed, n, tier, ctx, si, sc):
    from elexmodel.models.NonparametricElectionModel import NonparametricElectionModel

    model = NonparametricElectionModel({})
    grid = alpha_grid(400 if tier == "quick" else 2000)
    N = 3000 if tier == "quick" else 20000
    band = 12 if tier == "quick" else 30
    for alpha in grid[si::sc]:
        m = model.get_minimum_reporting_units(alpha)
        if m != gen.nonparam_min_units(alpha):
            ctx.violation("minimum_formula", f"alpha={alpha}: {m}", {"alpha": alpha}, sig="minimum_formula")
        bad = None
        for nn in range(m, m + N + 1):
            try:
                f = model._compute_conf_frac(nn, alpha)
            except Exception as e:  # "no arithmetic ... failure can occur for any count at or above the minimum"
                ctx.violation("far_split_exception", f"alpha={alpha} n={nn} (minimum {m}): {type(e).__name__}: {e}", {"alpha": alpha, "n": nn}, sig="far_split_exception")
                break
            t = math.floor(nn * f)
            cal = nn - max(t, 1)
            if (t < 1 and nn > m + band) or cal < 1 or alpha * (1 + 1 / cal) > 1 + 1e-12:
                bad = (nn, f, t, cal)
                break
        ctx.evaluated(N + 1)
        ctx.label("far_pairs", N + 1)
        if bad:
            ctx.violation("far_split_invalid", f"alpha={alpha} n={bad[0]} conf_frac={bad[1]} train={bad[2]} cal={bad[3]}", {"alpha": alpha, "n": bad[0]}, sig="far_split_invalid")
        ctx.nontrivial(f"far|{alpha}")


@gen.st.composite
def _gate_strategy(draw):
    offs = gen.st.sampled_from([-2, -1, -1, 0, 0, 0, 1, 1, 2, 3, 10])
    pool = (0.5, 0.6, 0.7, 0.75, 0.8, 0.9)
    case = draw(
        gen.election_case(
            exact_reporting=offs,
            outliers=(False,),
            alphas_pool=pool,
            max_alphas=3,
            max_other=10,
            allow_state_blocklist=True,
            max_counties=3,
        )
    )
    case["dup"] = draw(gen.st.integers(0, 7)) == 0
    return case


GATE = _gate_strategy()


def check_gate(case, ctx):
    from vf import ref

    ctx.evaluated()
    req = case["req"]
    recs = ref.categorise(case)
    n = sum(r["reporting"] for r in recs)
    need = gen.min_units(req["pi"], req["alphas"])
    run = run_case(case)
    ctx.label("pi:" + req["pi"])
    ctx.label("offset:" + str(n - need))
    expect_gate = n < need
    got_gate = (not run.ok) and common.is_gate_error(run.exc)
    if expect_gate != got_gate:
        if run.ok:
            ctx.violation("gate_missing", f"n={n} < minimum {need} but the run completed", case, sig="gate_missing")
        elif got_gate:
            ctx.violation("gate_spurious", f"n={n} >= minimum {need} but {run.exc}", case, sig="gate_spurious")
        else:
            ctx.violation("exception", f"n={n} minimum={need}: {type(run.exc).__name__}: {run.exc}", case, sig=exc_signature(run.exc))
        return
    if not run.ok and not got_gate:
        ctx.violation("exception", f"n={n} minimum={need}: {type(run.exc).__name__}: {run.exc}", case, sig=exc_signature(run.exc))
        return
    if run.ok:
        for name, t in run.tables.items():
            num = t.select_dtypes(include=[np.number])
            if not np.isfinite(num.to_numpy(dtype=float)).all():
                ctx.violation("tables_not_finite", f"{name} has non-finite values", case, sig="tables_not_finite")
                return
        if case.get("dup"):
            # duplicate one reporting unit's feed row
            c2 = copy.deepcopy(case)
            rep_ids = [r["id"] for r in recs if r["reporting"]]
            if rep_ids:
                u = next(u for u in c2["units"] if u["id"] == rep_ids[0])
                other_states = [s for s in c2["states"] if s != u["st"] and s not in c2["req"]["mp"].get("postal_code_blocklist", [])]
                if other_states and len(rep_ids) % 2 == 0:
                    # the same id once more as a reporting unit of ANOTHER state (baseline and feed)
                    twin = copy.deepcopy(u)
                    twin["st"] = other_states[0]
                    c2["units"].append(twin)
                    ctx.label("duplicate_id_cases:other_state")
                else:
                    c2["extra"] = list(c2.get("extra", [])) + [
                        {"id": u["id"], "st": u["st"], "pev": u["feed"]["pev"], "rd": u["feed"]["rd"], "rg": u["feed"]["rg"], "ro": u["feed"]["ro"]}
                    ]
                r2 = run_case(c2)
                ctx.label("duplicate_id_cases")
                if r2.ok or type(r2.exc).__name__ != "ModelClientException":
                    ctx.violation("duplicate_not_rejected", f"duplicate id {u['id']}: {'completed' if r2.ok else repr(r2.exc)}", c2, sig="duplicate_not_rejected")
    if abs(n - need) <= 1:
        ctx.nontrivial(f"gate|{req['pi']}|{sorted(req['alphas'])}|{n - need}", common.summarize_case(case, recs) | {"n_modelled_reporting": n, "minimum": need})


def run_part(name, seed, n, tier, ctx, si, sc):
    if name == "band":
        run_band(seed, n, tier, ctx, si, sc)
    elif name == "far":
        run_far(seed, n, tier, ctx, si, sc)
    else:
        hyp_run(GATE, lambda case: check_gate(case, ctx), seed, n, tier)


def replay(case, ctx):
    if "kind" in case and "alpha" in case:
        from elexmodel.models.GaussianElectionModel import GaussianElectionModel
        from elexmodel.models.NonparametricElectionModel import NonparametricElectionModel

        band_point(NonparametricElectionModel if case["kind"] == "nonparametric" else GaussianElectionModel, case["alpha"], case["n"], ctx, case["kind"])
    elif "units" in case:
        check_gate(case, ctx)
    elif "alpha" in case and "n" in case:
        from elexmodel.models.NonparametricElectionModel import NonparametricElectionModel

        ctx.evaluated()
        try:
            f = NonparametricElectionModel({})._compute_conf_frac(case["n"], case["alpha"])
        except Exception as e:
            ctx.violation("far_split_exception", f"alpha={case['alpha']} n={case['n']}: {type(e).__name__}: {e}", case, sig="far_split_exception")
            return
        t = math.floor(case["n"] * f)
        cal = case["n"] - max(t, 1)
        if cal < 1 or case["alpha"] * (1 + 1 / cal) > 1 + 1e-12:
            ctx.violation("far_split_invalid", f"alpha={case['alpha']} n={case['n']} conf_frac={f} train={t} cal={cal}", case, sig="far_split_invalid")


def facts(case):
    if "req" in case:
        return {"pi": case["req"]["pi"]}
    return {"kind": case.get("kind")}


def shrink_candidates(case):
    if "units" in case:
        # keep the number of modelled reporting units fixed: only drop non-reporting material
        for c in common.generic_shrink_candidates(case):
            yield c
