"""C07 - race calls and call-stops are always honoured; contradictory calls are rejected."""
from __future__ import annotations

import copy

import numpy as np

from vf import boot, gen
from vf.drive import AGG_TABLE, level_keys, run_case
from vf.props import common
from vf.props.c11 import rows_by_key, same
from vf.runner import exc_signature, hyp_run

ID = "C07"
LEVEL = "exploration"
RULE = (
    "(a) decision table, model level: generated top-level bootstrap outcomes (draw matrices built so that every ordered "
    "sign pattern of (lower, pred, upper) occurs) x each contest independently called left / called right / not called "
    "x stop-listed or not x 1-3 levels, through the real aggregate prediction + interval functions. Oracle = the "
    "statement's table: L => pred >= 0.005 and (not stopped => lower >= 0); R => pred <= -0.005 and (not stopped => "
    "upper <= 0); stopped and not called => lower <= 0 <= upper; neither => row bit-identical to the run with empty "
    "lists. (b) end-to-end through the client: generated disjoint call/stop lists of real contests (must complete, "
    "satisfy the table on the returned top-level table at every level, leave finer tables and the unit table "
    "unchanged); a contest in both lists or a name that is not a contest (in lhs, rhs or stop list) => "
    "BootstrapElectionModelException and no tables. Non-trivial: a called or stopped contest whose un-adjusted "
    "outcome contradicts the call (the adjustment has to act). Distinct = table cell (call state, stopped, sign "
    "pattern of the un-adjusted lower/pred/upper) per case."
)
ASSUMPTIONS = ["(a) sets the bootstrap attributes directly, as the repository's tests do", "contest names are '<state>' or '<state>_<district>'"]
FLOOR = {"quick": 15, "thorough": 20}


def parts(tier):
    if tier == "quick":
        return [{"name": "table", "n": 6000}, {"name": "e2e", "n": 160}]
    return [{"name": "table", "n": 80000}, {"name": "e2e", "n": 2400}]


MODEL = boot.model_case(with_calls=True)


def sign(x):
    return "-" if x < 0 else ("+" if x > 0 else "0")


def check_table_rows(t_called, t_plain, case, ctx, alphas, where):
    """Decision table on the called/stopped run `t_called` against the no-list run `t_plain` (both indexed by
    contest name). Returns the set of table cells hit where the adjustment had to act."""
    lhs, rhs, stop = set(case["lhs"]), set(case["rhs"]), set(case["stop"])
    acted = set()
    for name, row in t_called.items():
        plain = t_plain[name]
        state = "L" if name in lhs else ("R" if name in rhs else "none")
        stopped = name in stop
        pm = float(row["pred_margin"])
        if state == "L" and not pm >= 0.005:
            ctx.violation("call_not_honoured", f"{where} {name} called left: pred_margin {pm}", case, sig="left_pred")
            return None
        if state == "R" and not pm <= -0.005:
            ctx.violation("call_not_honoured", f"{where} {name} called right: pred_margin {pm}", case, sig="right_pred")
            return None
        for a in alphas:
            lo, up = float(row[f"lower_{a}"]), float(row[f"upper_{a}"])
            plo, ppm, pup = float(plain[f"lower_{a}"]), float(plain["pred_margin"]), float(plain[f"upper_{a}"])
            cell = (state, stopped, sign(plo), sign(ppm), sign(pup))
            if state == "L" and not stopped and not lo >= 0:
                ctx.violation("call_not_honoured", f"{where} {name} called left, alpha={a}: lower {lo}", case, sig="left_lower")
                return None
            if state == "R" and not stopped and not up <= 0:
                ctx.violation("call_not_honoured", f"{where} {name} called right, alpha={a}: upper {up}", case, sig="right_upper")
                return None
            if stopped and state == "none" and not (lo <= 0 <= up):
                ctx.violation("stop_not_honoured", f"{where} {name} stop-listed, alpha={a}: [{lo}, {up}] does not contain 0", case, sig="stop")
                return None
            if state == "none" and not stopped:
                for c in ("pred_margin", f"lower_{a}", f"upper_{a}", "pred_turnout", "results_margin"):
                    if not same(row[c], plain[c]):
                        ctx.violation("uncalled_contest_changed", f"{where} {name} {c}: {plain[c]} -> {row[c]}", case, sig="uncalled_changed")
                        return None
            else:
                contradicts = (state == "L" and (ppm < 0.005 or plo < 0)) or (state == "R" and (ppm > -0.005 or pup > 0)) or (stopped and state == "none" and (plo > 0 or pup < 0))
                if contradicts:
                    acted.add(cell)
            ctx.label("cell:" + "|".join(map(str, cell)))
    return acted


def check_model(case, ctx):
    ctx.evaluated()
    frames = boot.build(case)
    try:
        _, plain = boot.top_level(case, lhs=[], rhs=[], stop=[], model_and_frames=frames)
        frames2 = boot.build(case)
        _, called = boot.top_level(case, model_and_frames=frames2)
    except Exception as e:
        ctx.violation("exception", f"{type(e).__name__}: {e}", case, sig=exc_signature(e))
        return
    tp = {r["name"]: r for r in plain.to_dict("records")}
    tc = {r["name"]: r for r in called.to_dict("records")}
    if set(tp) != set(tc):
        ctx.violation("contest_rows_changed", f"{sorted(tp)} vs {sorted(tc)}", case, sig="rows")
        return
    acted = check_table_rows(tc, tp, case, ctx, case["alphas"], "model")
    if acted:
        for cell in acted:
            ctx.nontrivial("cell|" + "|".join(map(str, cell)), {"part": "table", "cell": list(cell), "lhs": case["lhs"], "rhs": case["rhs"], "stop": case["stop"], "alphas": case["alphas"], "B": case["B"]})


# ---- (b) end to end -----------------------------------------------------------------------------------------------
@gen.st.composite
def _e2e_strategy(draw):
    st = gen.st
    case = draw(
        gen.election_case(
            estimators=("bootstrap",), Bs=(10, 20), min_nonrep=1, max_alphas=2, aggregates_mode="top", slack=(0, 6), max_other=8, lambdas=(0, 0.1, None)
        )
    )
    if "unit" not in case["req"]["aggregates"]:
        case["req"]["aggregates"].append("unit")
    case["calls"] = {
        "mode": draw(st.sampled_from(["valid", "valid", "valid", "both", "unknown_lhs", "unknown_rhs", "unknown_stop"])),
        "picks": draw(st.lists(st.tuples(st.integers(0, 20), st.sampled_from(["L", "R", "none"]), st.booleans()), min_size=1, max_size=4)),
    }
    return case


def contest_names(case, table):
    keys = level_keys(case["office"], "postal_code")
    return ["_".join(map(str, k)) for k in table[keys].itertuples(index=False, name=None)]


def check_e2e(case, ctx):
    ctx.evaluated()
    base = copy.deepcopy({k: v for k, v in case.items() if k != "calls"})
    base["req"].update(lhs=[], rhs=[], stop=[])
    r0 = run_case(base)
    if not r0.ok:
        if not common.is_gate_error(r0.exc):
            ctx.violation("exception", f"{type(r0.exc).__name__}: {r0.exc}", case, sig=exc_signature(r0.exc))
        return
    names = contest_names(base, r0.tables["state_data"])
    mode = case["calls"]["mode"]
    lhs, rhs, stop = [], [], []
    for idx, state, stopped in case["calls"]["picks"]:
        n = names[idx % len(names)]
        if state == "L" and n not in rhs and n not in lhs:
            lhs.append(n)
        elif state == "R" and n not in lhs and n not in rhs:
            rhs.append(n)
        if stopped and n not in stop:
            stop.append(n)
    expect_error = False
    if mode == "both":
        n = names[case["calls"]["picks"][0][0] % len(names)]
        lhs = lhs + [n] if n not in lhs else lhs
        rhs = rhs + [n] if n not in rhs else rhs
        expect_error = True
    elif mode.startswith("unknown"):
        bogus = "QQ_99" if case["office"] == "H" else "QQ"
        {"unknown_lhs": lhs, "unknown_rhs": rhs, "unknown_stop": stop}[mode].append(bogus)
        expect_error = True
    c2 = copy.deepcopy(base)
    c2["req"].update(lhs=lhs, rhs=rhs, stop=stop)
    ctx.label("mode:" + mode)
    if not (lhs or rhs or stop):
        return
    r1 = run_case(c2)
    full = dict(c2, calls=case["calls"])
    if expect_error:
        if r1.ok or type(r1.exc).__name__ != "BootstrapElectionModelException":
            ctx.violation("contradiction_not_rejected", f"{mode}: lhs={lhs} rhs={rhs} stop={stop}: {'completed' if r1.ok else repr(r1.exc)}", full, sig=mode)
        else:
            ctx.nontrivial(["reject", mode, case["office"]], {"part": "e2e", "mode": mode, "lhs": lhs, "rhs": rhs, "stop": stop})
        return
    if not r1.ok:
        ctx.violation("valid_calls_failed", f"lhs={lhs} rhs={rhs} stop={stop}: {type(r1.exc).__name__}: {r1.exc}", full, sig=exc_signature(r1.exc))
        return
    keys = level_keys(case["office"], "postal_code")
    alphas = base["req"]["alphas"]

    def as_rows(t):
        out = {}
        for rec in t.to_dict("records"):
            name = "_".join(str(rec[k]) for k in keys)
            row = {"pred_margin": rec["pred_margin"], "pred_turnout": rec["pred_turnout"], "results_margin": rec["results_margin"]}
            for a in alphas:
                row[f"lower_{a}"] = rec[f"lower_{a}_margin"]
                row[f"upper_{a}"] = rec[f"upper_{a}_margin"]
            out[name] = row
        return out

    acted = check_table_rows(as_rows(r1.tables["state_data"]), as_rows(r0.tables["state_data"]), {"lhs": lhs, "rhs": rhs, "stop": stop, **full}, ctx, alphas, "client")
    if acted is None:
        return
    if case["office"] == "H" and "district_data" in r1.tables:
        # for a district office the district table holds the same contests and must honour calls and stops as well
        acted2 = check_table_rows(as_rows(r1.tables["district_data"]), as_rows(r0.tables["district_data"]), {"lhs": lhs, "rhs": rhs, "stop": stop, **full}, ctx, alphas, "client/district_data")
        if acted2 is None:
            return
        acted = acted | acted2
    # everything below the top level and the unit table is untouched by calls
    for agg in base["req"]["aggregates"]:
        name = AGG_TABLE[agg]
        if name == "state_data" or (name == "district_data" and case["office"] == "H"):
            continue
        k = level_keys(case["office"], agg)
        a, cols = rows_by_key(r0.tables[name], k)
        b, _ = rows_by_key(r1.tables[name], k)
        if set(a) != set(b):
            ctx.violation("finer_table_changed", f"{name}: rows differ", full, sig="finer_rows")
            return
        for kk, row in a.items():
            for c in cols:
                if not same(row[c], b[kk][c]):
                    ctx.violation("finer_table_changed", f"{name} {kk} {c}: {row[c]} -> {b[kk][c]} because of race calls", full, sig="finer_cell")
                    return
    if acted:
        ctx.nontrivial(["e2e", case["office"], sorted(map(str, acted))], {"part": "e2e", "lhs": lhs, "rhs": rhs, "stop": stop, "cells": sorted(map(str, acted))})


def run_part(name, seed, n, tier, ctx, si, sc):
    if name == "table":
        hyp_run(MODEL, lambda case: check_model(case, ctx), seed, n, tier)
    else:
        hyp_run(_e2e_strategy(), lambda case: check_e2e(case, ctx), seed, n, tier)


def replay(case, ctx):
    if "units" in case:
        if "calls" not in case:
            case = dict(case, calls={"mode": "valid", "picks": []})
        check_e2e(case, ctx)
    else:
        check_model(case, ctx)


def facts(case):
    return {"part": "e2e" if "units" in case else "model"}
