"""C09 - which units feed the model follows the documented eligibility rules exactly.

Part "component": CombinedDataHandler(...).get_units(...) is called directly on small generated frames (the
baseline frame is prepared exactly the way the client prepares it) and every unit's frame, `unit_category`,
`reporting` and derived columns are compared with a reference written from the property statement.
Part "e2e": a thin slice through ModelClient.get_estimates confirms that the client hands its documented
defaults (0.5 / 2.0 / outlier models on, z = 2.0, empty blocklists) to the component.
"""
from __future__ import annotations

import copy
import math
import os
from fractions import Fraction

import numpy as np
import pandas as pd
from hypothesis import strategies as st

from vf import gen, ref
from vf.drive import make_config, make_frames
from vf.props import common
from vf.runner import exc_signature, hyp_run, jhash

ID = "C09"
LEVEL = "exploration"
RULE = (
    "component: CombinedDataHandler.get_units called directly on Hypothesis-generated frames of 3-45 units "
    "(baseline prepared through ConfigHandler.get_estimand_baselines + PreprocessedDataHandler as the client does; "
    "estimand sets from {turnout,dem,gop}, ['margin'] and margin + vote estimands; percent_expected_vote exactly "
    "at / one ulp / 1e-9 / 0.5 around the threshold; turnout factor exactly at each limit and one vote inside / "
    "outside; zero baseline, zero two-party baseline, unit- and state-blocklisted, strange-turnout-factor overlaps; "
    "units absent from the feed under both policies; zero two-party vote with non-zero turnout; unexpected feed "
    "rows; outlier models on/off with 19/20/21/22+ units at or above the threshold) compared unit by unit with a "
    "reference categorisation (first applicable reason wins: blocklisted -> zero baseline -> strange turnout "
    "factor -> turnout outlier -> margin outlier; the outlier models' own flags are observed from the run) and "
    "with the definitions of the derived columns. e2e: elections run through ModelClient.get_estimates, "
    "unit_data.reporting / unit_category compared with the reference and with a direct get_units call that is "
    "given the documented defaults. Non-trivial: >=1 boundary hit (pev == threshold, turnout factor == a limit) "
    "or >=1 unit with >=2 applicable reasons. Distinct = hash of (part, unreporting policy, estimand mode, set of "
    "(applicable reasons, category, reporting) with multiplicities capped at 2)."
)
ASSUMPTIONS = [
    "feed unit ids unique; baseline unit ids unique; feed postal codes are config states; votes are non-negative integers (int64 or float64 columns); results_turnout >= results_dem + results_gop; feed rows complete",
    "which units an enabled outlier model flags is observed from the run (a recording wrapper around the handler's model-fitting method, or the returned categories if that method is not called); the statement does not define the outlier model's own decision and nothing is asserted about the rows it was fitted on (C10 / F12)",
    "an outlier category requires more than 20 baseline units at or above the threshold, counted over ALL such units: a necessary condition that holds whether or not the code counts blocklisted / zero-baseline units (the statement does not say which count); the generator puts both counts on 19/20/21/22",
    "the turnout factor compared with the limits is the IEEE double quotient results_weights / baseline_weights",
    "a feed row that is not in the baseline is 'unexpected' even if its id or state is blocklisted",
    "residuals are compared only where the denominator (baseline + 1) is not zero (baseline margin == -1 is skipped)",
    "e2e differential uses CombinedDataHandler.get_units (verified by the component part) as a building block",
]
_FRACTION = min(1.0, float(os.environ.get("VERIF_C09_FRACTION", "1") or 1))
# a quarter of the smallest distinct_nontrivial seen over seeds on the quick tier (about 4 700)
FLOOR = {"quick": max(2, int(1000 * _FRACTION)), "thorough": max(2, int(1000 * _FRACTION))}

EXPECTED, UNEXPECTED = ref.EXPECTED, ref.UNEXPECTED
BLOCK, ZERO, STRANGE, OUT_T, OUT_M = ref.BLOCK, ref.ZERO, ref.STRANGE, ref.OUT_T, ref.OUT_M
N_MIN_OUTLIER = 20  # the outlier models need more than this many units at or above the threshold

VOTE = ["turnout", "dem", "gop"]
THRESHOLDS = [100, 100, 100, 90, 75, 50, 0, 99.5, 33.3, 12.5]
TF_LIMITS = [(0.5, 2.0), (0.5, 2.0), (0.5, 2.0), (0.8, 1.25), (0.75, 1.5), (0.25, 4.0), (0.9, 1.1), (0.3, 1.7), (1.0, 1.0)]
N_ABOVE = [21, 3, 1, 2, 0, 4, 6, 9, 13, 19, 21, 22, 25, 32, 20]
BASE_KINDS = ["n", "n", "n", "n", "n", "small", "z", "z2"]
ABOVE_KINDS = ["full", "full", "full", "at", "at", "eps_up", "over"]
BELOW_KINDS = ["part", "part", "eps_dn", "eps_dn", "zero", "absent", "absent"]
TF_KINDS = ["ok", "ok", "ok", "ok", "ok", "at_lo", "at_hi", "in_lo", "out_lo", "in_hi", "out_hi", "far_lo", "far_hi", "zero", "zero2"]
STATES = gen.STATES
assert len(ABOVE_KINDS) == 7 and len(BELOW_KINDS) == 7
UNIT_CODE = st.integers(0, 3 * 7 * len(BASE_KINDS) * 7 * len(TF_KINDS) - 1)


def parts(tier):
    # VERIF_C09_FRACTION < 1 shrinks the component budget (used only for quick sensitivity runs on busy machines)
    frac = float(os.environ.get("VERIF_C09_FRACTION", "1") or 1)
    if tier == "quick":
        return [{"name": "component", "n": max(16, int(20000 * frac))}, {"name": "e2e", "n": 160}]
    return [{"name": "component", "n": max(16, int(300000 * frac))}, {"name": "e2e", "n": 2000}]


# ---- generation -------------------------------------------------------------------------------------------------
def _estimand_sets():
    votes = st.lists(st.sampled_from(VOTE), min_size=1, max_size=3, unique=True)
    margin_plus = st.sampled_from([["margin", "dem"], ["turnout", "margin"], ["margin", "dem", "gop"], ["gop", "margin"]])
    return st.one_of(votes, votes, st.just(["margin"]), st.just(["margin"]), margin_plus)


def _near(thr, eps, up):
    if eps == "ulp":
        return math.nextafter(thr, math.inf if up else -math.inf)
    return thr + eps if up else thr - eps


def _target_weights(kind, bw, tfl, tfu, rng):
    """results weights giving the wanted relation between turnout factor and the limits (bw > 0)."""
    lo = Fraction(str(tfl)) * bw
    hi = Fraction(str(tfu)) * bw
    if kind == "at_lo":
        v = lo if lo.denominator == 1 else math.floor(lo)
    elif kind == "at_hi":
        v = hi if hi.denominator == 1 else math.ceil(hi)
    elif kind == "in_lo":
        v = math.floor(lo) + 1
    elif kind == "out_lo":
        v = math.ceil(lo) - 1
    elif kind == "in_hi":
        v = math.ceil(hi) - 1
    elif kind == "out_hi":
        v = math.floor(hi) + 1
    elif kind == "far_lo":
        v = math.floor(lo / 3)
    elif kind == "far_hi":
        v = math.ceil(hi * 3)
    else:
        v = round(bw * float(rng.uniform(0.62, 1.6)))
    return max(0, int(v))


@st.composite
def component_case(draw):
    estimands = draw(_estimand_sets())
    margin_mode = "margin" in estimands
    district = draw(st.integers(0, 5)) == 0
    hu = draw(st.sampled_from(["drop", "zero"]))
    thr = draw(st.sampled_from(THRESHOLDS))
    eps = draw(st.sampled_from([1e-9, 0.5, "ulp", "ulp"]))
    tfl, tfu = draw(st.sampled_from(TF_LIMITS))
    fit_t = draw(st.booleans())
    fit_m = draw(st.booleans())
    z = draw(st.sampled_from([2.0, 2.0, 1.0, 0.5, 3.0]))
    n_states = draw(st.integers(1, 3))
    states = STATES[:n_states]
    noise_seed = draw(st.integers(0, 2**31 - 1))
    # units at or above the threshold: `n_clean` that are neither blocklisted nor zero-baseline (the count that
    # sits on the 20 / 21 boundary of the outlier models whether or not excluded units are counted) plus
    # `n_dirty` that are blocklisted and / or zero-baseline
    n_clean = draw(st.sampled_from(N_ABOVE))
    n_dirty = draw(st.sampled_from([0, 0, 0, 1, 2, 3, 5]))
    n_above = n_clean + n_dirty
    n_below = draw(st.integers(0, 10))
    if n_above + n_below < 3:
        n_below = 3 - n_above
    dist_names = ["1", "10", "2"]
    sbk = draw(st.integers(0, 9))
    sb = [states[-1]] if sbk == 0 else list(states) if sbk == 1 else ["QQ"] if sbk == 2 else []
    open_states = [j for j, s_ in enumerate(states) if s_ not in sb]

    units = []
    blocklist = []
    counters = {}
    for i in range(n_above + n_below):
        rng = gen.unit_noise(noise_seed, i)
        # one mixed-radix draw per unit (state, blocklisted, baseline kind, feed kind, turnout-factor kind):
        # a fifth of the Hypothesis overhead of five separate draws; reduction is done on the JSON case anyway
        code = draw(UNIT_CODE)
        code, si = divmod(code, 3)
        si %= n_states
        code, blk = divmod(code, 7)
        blk = blk == 0
        code, bk = divmod(code, len(BASE_KINDS))
        bk = BASE_KINDS[bk]
        code, fk = divmod(code, 7)
        fk = (ABOVE_KINDS if i < n_above else BELOW_KINDS)[fk]
        tk = TF_KINDS[code]
        if i < n_clean:
            blk = False
            bk = bk if bk in ("n", "small") else "n"
            if open_states:
                si = open_states[si % len(open_states)]
        elif i < n_above and not blk and not (bk == "z" or (bk == "z2" and margin_mode)):
            if tk in ("at_lo", "at_hi", "zero"):
                bk = "z"  # zero baseline and (turnout factor 0) strange turnout factor overlap
            else:
                blk = True
        county = f"{si + 1}{int(rng.integers(1, 4)):02d}"
        k = counters.get(county, 0) + 1
        counters[county] = k
        dist = dist_names[int(rng.integers(0, 3))] if district else None
        uid = f"{dist}_{county}_p{k}" if district else f"{county}_p{k}"
        if bk == "n":
            bd, bg, bo = int(rng.integers(0, 600)), int(rng.integers(1, 600)), int(rng.integers(0, 40))
        elif bk == "small":
            bd, bg, bo = int(rng.integers(0, 6)), int(rng.integers(1, 6)), int(rng.integers(0, 3))
        elif bk == "z":
            bd, bg, bo = 0, 0, 0
        else:  # zero two-party baseline, non-zero turnout
            bd, bg, bo = 0, 0, int(rng.integers(1, 30))
        bw = (bd + bg) if margin_mode else (bd + bg + bo)
        if bw > 0 and tk in ("at_lo", "at_hi", "in_lo", "out_lo", "in_hi", "out_hi"):
            # make baseline x limit an integer so that the turnout factor can sit exactly on the limit
            den = Fraction(str(tfl if tk.endswith("lo") else tfu)).denominator
            bg += (-bw) % den
            bw = (bd + bg) if margin_mode else (bd + bg + bo)
        feed = None
        if fk != "absent" and not (thr == 0 and i >= n_above):
            if fk == "full":
                pev = 100
            elif fk == "at":
                pev = thr
            elif fk == "eps_up":
                pev = _near(thr, eps, True)
            elif fk == "over":
                pev = 105
            elif fk == "eps_dn":
                pev = _near(thr, eps, False)
            elif fk == "zero":
                pev = 0
            else:
                pev = round(float(rng.uniform(0, thr)), 1)
                if pev >= thr:
                    pev = thr / 2
            pev = max(pev, 0)
            if bw == 0 or tk in ("zero", "zero2"):
                if tk == "zero":
                    rd, rg, ro = 0, 0, 0
                elif tk == "zero2":
                    rd, rg, ro = 0, 0, int(rng.integers(1, 50))
                else:
                    rd, rg, ro = int(rng.integers(0, 30)), int(rng.integers(0, 30)), int(rng.integers(0, 5))
            else:
                rw = _target_weights(tk, bw, tfl, tfu, rng)
                if margin_mode:
                    rd = int(rng.integers(0, rw + 1))
                    rg = rw - rd
                    ro = int(rng.integers(0, 25))
                else:
                    ro = min(rw, int(rng.integers(0, 25)))
                    rd = int(rng.integers(0, rw - ro + 1))
                    rg = rw - ro - rd
            feed = {"pev": pev, "rd": rd, "rg": rg, "ro": ro}
        if blk:
            blocklist.append(uid)
        units.append(
            {
                "id": uid,
                "st": states[si],
                "county": county,
                "dist": dist,
                "bd": bd,
                "bg": bg,
                "bo": bo,
                "x": round(float(rng.uniform(0, 1)), 4),
                "feed": feed,
            }
        )

    extra = []
    for k in range(draw(st.sampled_from([0, 0, 1, 1, 2, 3]))):
        rng = gen.unit_noise(noise_seed, 50_000 + k)
        si = draw(st.integers(0, n_states - 1))
        county = f"{si + 1}{int(rng.integers(1, 4)):02d}" if draw(st.booleans()) else f"{si + 1}9{k}"
        uid = f"{dist_names[k % 3]}_{county}_x{k}" if district else f"{county}_x{k}"
        pev = draw(st.sampled_from([0, 50, thr, 100, 105]))
        if draw(st.integers(0, 3)) == 0:
            rd, rg, ro = 0, 0, int(rng.integers(0, 50))
        else:
            rd, rg, ro = int(rng.integers(0, 900)), int(rng.integers(0, 900)), int(rng.integers(0, 60))
        extra.append({"id": uid, "st": states[si], "pev": pev, "rd": rd, "rg": rg, "ro": ro})

    ub = list(blocklist)
    pick = draw(st.integers(0, 9))
    if pick == 0:
        ub.append("999_p9")  # an id that exists nowhere
    elif pick == 1 and extra:
        ub.append(extra[0]["id"])  # a blocklisted id that is not in the baseline stays 'unexpected'

    ids = [u["id"] for u in units if u["feed"] is not None] + [e["id"] for e in extra]
    feed_ids = list(draw(st.permutations(ids))) if draw(st.booleans()) else ids
    aggregates = draw(st.sampled_from([["postal_code", "county_fips", "unit"], ["postal_code", "unit"], ["unit"], ["postal_code", "county_fips"]]))
    if district and draw(st.booleans()):
        aggregates = ["postal_code", "district"] + aggregates[1:]
    return {
        "kind": "component",
        "office": "H" if district else "G",
        "gut": "precinct-district" if district else "precinct",
        "states": states,
        "estimands": estimands,
        "hu": hu,
        "thr": thr,
        "tfl": tfl,
        "tfu": tfu,
        "ub": ub,
        "sb": sb,
        "fit_m": fit_m,
        "fit_t": fit_t,
        "z": z,
        "aggregates": aggregates,
        "float_votes": draw(st.booleans()),
        "with_feature": draw(st.booleans()),
        "stale_results": draw(st.integers(0, 4)) == 0,
        "units": units,
        "extra": extra,
        "feed_ids": feed_ids,
    }


COMPONENT = component_case()


@st.composite
def e2e_case(draw):
    case = draw(
        gen.election_case(
            estimators=("nonparametric", "bootstrap"),
            max_states=2,
            max_counties=3,
            max_other=14,
            slack=(6, 22),
            alphas_pool=(0.7, 0.8),
            max_alphas=1,
            statuses=(gen.N, gen.A, gen.Z, gen.B, gen.BN, gen.T_HI, gen.T_LO, gen.T_HI, gen.T_LO, gen.T_LO),
            outliers=(True, True, False),
            aggregates_mode="top",
            Bs=(10,),
            lambdas=(None,),
            tf_limits=((0.5, 2.0), (0.5, 2.0), (0.5, 2.0), (0.8, 1.25), (0, 2.0), (0, 3.0)),
            allow_features=False,
            allow_fe=False,
            special_counties=False,
        )
    )
    req = case["req"]
    if "unit" not in req["aggregates"]:
        req["aggregates"] = req["aggregates"] + ["unit"]
    mp = req["mp"]
    # documented defaults: the outlier models are on unless model_parameters say otherwise
    if mp.get("fit_turnout_outlier_model") and draw(st.booleans()):
        del mp["fit_turnout_outlier_model"]
    if mp.get("fit_margin_outlier_model") and draw(st.booleans()):
        del mp["fit_margin_outlier_model"]
    if draw(st.integers(0, 5)) == 0:
        mp["outlier_z_threshold"] = draw(st.sampled_from([1.0, 3.0]))
    # put some of the strange-turnout-factor units exactly on / one vote inside / one vote outside the limit in
    # effect (the client's default when model_parameters do not name one)
    tfl, tfu = mp.get("turnout_factor_lower", 0.5), mp.get("turnout_factor_upper", 2.0)
    margin_mode = "margin" in req["estimands"]
    for u in case["units"]:
        if u["status"] not in (gen.T_LO, gen.T_HI) or u["feed"] is None:
            continue
        k = draw(st.sampled_from(["keep", "at", "at", "in", "out"]))
        if k == "keep":
            continue
        side = "lo" if u["status"] == gen.T_LO else "hi"
        den = Fraction(str(tfl if side == "lo" else tfu)).denominator
        bw = (u["bd"] + u["bg"]) if margin_mode else (u["bd"] + u["bg"] + u["bo"])
        u["bg"] += (-bw) % den
        bw += (-bw) % den
        rw = _target_weights(f"{k}_{side}", bw, tfl, tfu, None)
        f = u["feed"]
        ro = f["ro"] if margin_mode else min(f["ro"], rw)
        two = rw if margin_mode else rw - ro
        rd = (two * u["bd"]) // max(1, u["bd"] + u["bg"])
        u["feed"] = {"pev": f["pev"], "rd": int(rd), "rg": int(two - rd), "ro": int(ro)}
    return case


E2E = e2e_case()


# ---- materialisation --------------------------------------------------------------------------------------------
def comp_frames(case):
    vt = float if case.get("float_votes") else "int64"
    units = case["units"]
    cols = {
        "postal_code": [u["st"] for u in units],
        "geographic_unit_fips": [u["id"] for u in units],
        "county_fips": [u["county"] for u in units],
    }
    if case["office"] == "H":
        cols["district"] = [u["dist"] for u in units]
    cols["baseline_dem"] = np.array([u["bd"] for u in units], dtype=vt)
    cols["baseline_gop"] = np.array([u["bg"] for u in units], dtype=vt)
    cols["baseline_turnout"] = np.array([u["bd"] + u["bg"] + u["bo"] for u in units], dtype=vt)
    if case.get("with_feature"):
        cols["percent_bachelor_or_higher"] = np.array([u["x"] for u in units], dtype=float)
    if case.get("stale_results"):
        # results of a past election left in the baseline file: documented to be ignored in favour of the feed
        cols["results_turnout"] = np.array([7 + i for i in range(len(units))], dtype=vt)
        cols["results_dem"] = np.array([3] * len(units), dtype=vt)
    pre = pd.DataFrame(cols)
    rows = {}
    for u in units:
        f = u.get("feed")
        if f is not None:
            rows[u["id"]] = (u["st"], u["id"], f["pev"], f["rd"], f["rg"], f["rd"] + f["rg"] + f["ro"])
    for e in case.get("extra", []):
        rows[e["id"]] = (e["st"], e["id"], e["pev"], e["rd"], e["rg"], e["rd"] + e["rg"] + e["ro"])
    order = [i for i in case.get("feed_ids", []) if i in rows]
    order += [i for i in rows if i not in set(order)]
    cur = pd.DataFrame(
        [rows[i] for i in order],
        columns=["postal_code", "geographic_unit_fips", "percent_expected_vote", "results_dem", "results_gop", "results_turnout"],
    )
    for c in ("results_dem", "results_gop", "results_turnout"):
        cur[c] = cur[c].astype(vt)
    cur["percent_expected_vote"] = cur["percent_expected_vote"].astype(float)
    return pre, cur


def client_preprocess(pre, case, estimands):
    """The baseline frame exactly as ModelClient.get_estimates prepares it."""
    from elexmodel.handlers.config import ConfigHandler
    from elexmodel.handlers.data.PreprocessedData import PreprocessedDataHandler

    election_id = case.get("election_id", gen.ELECTION_ID)
    ch = ConfigHandler(election_id, config=make_config(case))
    baselines = ch.get_estimand_baselines(case["office"], estimands)
    h = PreprocessedDataHandler(election_id, case["office"], case["gut"], estimands, baselines, data=pre)
    h.data = h.select_rows_in_states(h.data, ch.get_states(case["office"]))
    return h.data


def spy_outlier_model(handler):
    """Record which unit ids each outlier model flags (the one input the reference takes from the run)."""
    calls = []
    orig = getattr(handler, "_fit_outlier_detection_model", None)
    if not callable(orig):
        return None

    def spy(*args, **kwargs):
        out = orig(*args, **kwargs)
        response = next((a for a in list(args) + list(kwargs.values()) if isinstance(a, str)), None)
        try:
            calls.append((response, [str(x) for x in out["geographic_unit_fips"]]))
        except Exception:
            calls.append((response, None))
        return out

    handler._fit_outlier_detection_model = spy
    return calls


# ---- reference --------------------------------------------------------------------------------------------------
def reference(case, flagged_t, flagged_m):
    """id -> record (frame, category, reporting, applicable reasons, values) from the statement."""
    margin_mode = "margin" in case["estimands"]
    thr, tfl, tfu = case["thr"], case["tfl"], case["tfu"]
    ub, sb = set(case["ub"]), set(case["sb"])
    recs = {}
    n_above = 0
    for u in case["units"]:
        f = u.get("feed")
        absent = f is None
        if absent:
            if case["hu"] == "drop":
                continue  # in no frame
            f = {"pev": 0, "rd": 0, "rg": 0, "ro": 0}
        bt = u["bd"] + u["bg"] + u["bo"]
        bw = (u["bd"] + u["bg"]) if margin_mode else bt
        rt = f["rd"] + f["rg"] + f["ro"]
        rw = (f["rd"] + f["rg"]) if margin_mode else rt
        above = f["pev"] >= thr
        tf = (rw / bw) if bw != 0 else 0.0
        reasons = []
        if u["id"] in ub or u["st"] in sb:
            reasons.append(BLOCK)
        if bw == 0:
            reasons.append(ZERO)
        if above and (tf <= tfl or tf >= tfu):
            reasons.append(STRANGE)
        n_above += 1 if above else 0
        recs[u["id"]] = {
            "id": u["id"],
            "baseline": True,
            "absent": absent,
            "above": above,
            "reasons": reasons,
            "pev": f["pev"],
            "rd": f["rd"],
            "rg": f["rg"],
            "rt": rt,
            "rw": rw,
            "bd": u["bd"],
            "bg": u["bg"],
            "bt": bt,
            "bw": bw,
            "tf": tf,
            "at_thr": f["pev"] == thr,
            "at_limit": bool(above and bw != 0 and (tf == tfl or tf == tfu)),
        }
    models_may_run = n_above > N_MIN_OUTLIER
    for r in recs.values():
        if r["above"] and models_may_run:
            if case["fit_t"] and r["id"] in flagged_t:
                r["reasons"].append(OUT_T)
            if margin_mode and case["fit_m"] and r["id"] in flagged_m:
                r["reasons"].append(OUT_M)
        if r["reasons"]:
            r["frame"], r["cat"], r["reporting"] = "other", r["reasons"][0], 0
        elif r["above"]:
            r["frame"], r["cat"], r["reporting"] = "fit", EXPECTED, 1
        else:
            r["frame"], r["cat"], r["reporting"] = "pred", EXPECTED, 0
    for e in case.get("extra", []):
        rt = e["rd"] + e["rg"] + e["ro"]
        recs[e["id"]] = {
            "id": e["id"],
            "baseline": False,
            "absent": False,
            "above": e["pev"] >= thr,
            "reasons": [UNEXPECTED],
            "frame": "other",
            "cat": UNEXPECTED,
            "reporting": 0,
            "pev": e["pev"],
            "rd": e["rd"],
            "rg": e["rg"],
            "rt": rt,
            "rw": (e["rd"] + e["rg"]) if margin_mode else rt,
            "at_thr": False,
            "at_limit": False,
        }
    return recs, n_above


def _close(a, b):
    return abs(a - b) <= 1e-9 * max(1.0, abs(a), abs(b))


def _short(cat):
    return cat.replace("non-modeled: ", "").replace(" ", "_")


def check_derived(name, df, recs, case, viol):
    """Derived columns of one returned frame against their definitions."""
    margin_mode = "margin" in case["estimands"]
    ids = [str(x) for x in df["geographic_unit_fips"]]
    n = len(ids)
    if n == 0:
        return
    has_baseline = any(recs[i]["baseline"] for i in ids if i in recs)

    def column(col, required):
        if col not in df.columns:
            if required:
                viol("derived_column_missing", f"frame '{name}' has no column {col}", sig=f"missing|{name}|{col}")
            return None
        try:
            return [float(v) for v in df[col]]
        except (TypeError, ValueError):
            viol("derived_not_numeric", f"frame '{name}' column {col} is not numeric", sig=f"notnum|{name}|{col}")
            return None

    def compare(col, required, want_fn, exact, only_baseline=False):
        vals = column(col, required and (has_baseline or not only_baseline))
        if vals is None:
            return
        for uid, v in zip(ids, vals):
            r = recs.get(uid)
            if r is None or (only_baseline and not r["baseline"]):
                continue
            want = want_fn(r)
            if want is None:
                continue
            if not math.isfinite(v):
                viol("derived_not_finite", f"frame '{name}' unit {uid}: {col}={v} (definition gives {want})", sig=f"notfinite|{col}")
                return
            if (v != want) if exact else (not _close(v, want)):
                viol("derived_value", f"frame '{name}' unit {uid}: {col}={v!r} definition gives {want!r}", sig=f"value|{col}")
                return

    compare("results_dem", True, lambda r: float(r["rd"]), True)
    compare("results_gop", True, lambda r: float(r["rg"]), True)
    compare("results_turnout", True, lambda r: float(r["rt"]), True)
    compare("results_weights", True, lambda r: float(r["rw"]), True)
    compare("baseline_weights", True, lambda r: float(r["bw"]), True, only_baseline=True)
    compare("turnout_factor", True, lambda r: (r["rw"] / r["bw"]) if r["bw"] != 0 else 0.0, False, only_baseline=True)
    if margin_mode:
        compare("results_margin", True, lambda r: float(r["rd"] - r["rg"]), True)
        compare(
            "results_normalized_margin",
            True,
            lambda r: ((r["rd"] - r["rg"]) / (r["rd"] + r["rg"])) if (r["rd"] + r["rg"]) != 0 else 0.0,
            False,
        )
        compare("baseline_margin", True, lambda r: float(r["bd"] - r["bg"]), True, only_baseline=True)
        compare(
            "baseline_normalized_margin",
            True,
            lambda r: ((r["bd"] - r["bg"]) / (r["bd"] + r["bg"])) if (r["bd"] + r["bg"]) != 0 else 0.0,
            False,
            only_baseline=True,
        )
    if name == "fit":
        res_of = {"dem": "rd", "gop": "rg", "turnout": "rt"}
        base_of = {"dem": "bd", "gop": "bg", "turnout": "bt"}
        for e in case["estimands"]:

            def want(r, e=e):
                if e == "margin":
                    res, base = r["rd"] - r["rg"], r["bd"] - r["bg"]
                else:
                    res, base = r[res_of[e]], r[base_of[e]]
                if base + 1 == 0:
                    return None
                return (res - (base + 1)) / (base + 1)

            compare(f"residuals_{e}", True, want, False, only_baseline=True)


def compare_units(frames, recs, case, viol):
    """Membership, category and reporting flag of every unit of the three returned frames."""
    got = {}
    ok = True
    for name, df in frames.items():
        for col in ("geographic_unit_fips", "unit_category", "reporting"):
            if col not in df.columns:
                viol("frame_column_missing", f"frame '{name}' has no column {col}", sig=f"{name}|{col}")
                return False
        for uid, cat, rep in zip(df["geographic_unit_fips"], df["unit_category"], df["reporting"]):
            uid = str(uid)
            if uid in got:
                viol("unit_duplicated", f"{uid} is in frame '{got[uid][0]}' and again in '{name}'", sig=f"{got[uid][0]}+{name}")
                ok = False
                continue
            got[uid] = (name, cat, rep)
    missing = sorted(set(recs) - set(got))
    spurious = sorted(set(got) - set(recs))
    if missing:
        r = recs[missing[0]]
        viol(
            "unit_missing",
            f"{len(missing)} unit(s) in no frame, e.g. {missing[0]} (reference: frame '{r['frame']}' category '{r['cat']}' reasons {r['reasons']} pev={r['pev']})",
            sig=f"{r['frame']}|{_short(r['cat'])}",
        )
        ok = False
    if spurious:
        g = got[spurious[0]]
        viol("unit_not_in_play", f"{len(spurious)} unit(s) returned that take no part (absent under 'drop'), e.g. {spurious[0]} in frame '{g[0]}' as '{g[1]}'", sig=g[0])
        ok = False
    for uid, (name, cat, rep) in got.items():
        r = recs.get(uid)
        if r is None:
            continue
        if name != r["frame"] or cat != r["cat"]:
            extra = ""
            if r["baseline"]:
                extra = f" pev={r['pev']} threshold={case['thr']} turnout_factor={r['tf']!r} limits=({case['tfl']},{case['tfu']}) baseline_weights={r['bw']}"
            viol(
                "unit_placement",
                f"{uid}: run frame '{name}' category '{cat}', reference frame '{r['frame']}' category '{r['cat']}' (applicable reasons {r['reasons']}){extra}",
                sig=f"{r['frame']}/{_short(r['cat'])}=>{name}/{_short(str(cat))}",
            )
            ok = False
            continue
        try:
            rep_ok = float(rep) == float(r["reporting"])
        except (TypeError, ValueError):
            rep_ok = False
        if not rep_ok:
            viol("reporting_flag", f"{uid} (frame '{name}', category '{cat}'): reporting={rep!r} reference {r['reporting']}", sig=f"{name}|{_short(str(cat))}")
            ok = False
    return ok


def signature(part, policy, mode, recs):
    cnt = {}
    for r in recs:
        k = (tuple(_short(x) for x in r["reasons"]), _short(r["cat"]), int(r["reporting"]), bool(r.get("absent")))
        cnt[k] = min(2, cnt.get(k, 0) + 1)
    return jhash([part, policy, mode, sorted((list(map(str, k)), v) for k, v in cnt.items())])


def estimand_mode(estimands):
    if "margin" not in estimands:
        return "votes"
    return "margin" if len(estimands) == 1 else "margin+votes"


# ---- component check --------------------------------------------------------------------------------------------
def check_component(case, ctx):
    from elexmodel.handlers.data.CombinedData import CombinedDataHandler

    ctx.evaluated()
    pre, cur = comp_frames(case)
    estimands = list(case["estimands"])

    def viol(kind, detail, sig=""):
        ctx.violation(kind, detail, case, sig=f"{kind}|{sig}" if sig else kind)

    calls = None
    try:
        pdata = client_preprocess(pre, case, estimands)
        handler = CombinedDataHandler(pdata, cur, estimands, case["gut"], handle_unreporting=case["hu"])
        calls = spy_outlier_model(handler)
        rep, non, unx = handler.get_units(
            case["thr"],
            case["tfl"],
            case["tfu"],
            list(case["ub"]),
            list(case["sb"]),
            case["fit_m"],
            case["fit_t"],
            case["z"],
            list(case["aggregates"]),
        )
    except Exception as e:  # an exception inside the declared domain: no frames, the statement cannot hold
        ctx.label("outcome:exception")
        ctx.violation("exception", f"{type(e).__name__}: {e}", case, sig=exc_signature(e))
        return
    frames = {"fit": rep, "pred": non, "other": unx}

    # outlier flags: observed at the model-fitting call, else from the returned categories
    out_cats = {}
    if "unit_category" in unx.columns and "geographic_unit_fips" in unx.columns:
        for uid, c in zip(unx["geographic_unit_fips"], unx["unit_category"]):
            if c in (OUT_T, OUT_M):
                out_cats[str(uid)] = c
    flagged_t, flagged_m = set(), set()
    observed = bool(calls) and all(ids is not None for _, ids in calls)
    if observed:
        for response, ids in calls:
            if response == "turnout_factor":
                flagged_t |= set(ids)
            elif response == "results_normalized_margin":
                flagged_m |= set(ids)
            else:
                observed = False
    if not observed:
        flagged_t = {i for i, c in out_cats.items() if c == OUT_T}
        flagged_m = {i for i, c in out_cats.items() if c == OUT_M}
    ctx.label("outlier_flags:" + ("observed_at_model" if observed else "from_categories" if out_cats else "none"))

    recs, n_above = reference(case, flagged_t, flagged_m)

    # outlier categories only from an enabled model with more than 20 units at or above the threshold
    margin_mode = "margin" in estimands
    for uid, c in out_cats.items():
        enabled = case["fit_t"] if c == OUT_T else (case["fit_m"] and margin_mode)
        if not enabled or n_above <= N_MIN_OUTLIER:
            viol("outlier_category_not_allowed", f"{uid} is '{c}' but model enabled={enabled}, units at/above threshold={n_above} (needs > {N_MIN_OUTLIER})", sig=_short(c) + ("|disabled" if not enabled else "|count"))
            break

    placed = compare_units(frames, recs, case, viol)
    if placed:
        for name, df in frames.items():
            check_derived(name, df, recs, case, viol)

    # ---- coverage bookkeeping
    rl = list(recs.values())
    mode = estimand_mode(estimands)
    ctx.label("mode:" + mode)
    ctx.label("policy:" + case["hu"])
    for c in sorted({r["cat"] if r["cat"] != EXPECTED else r["frame"] for r in rl}):
        ctx.label("has:" + _short(c))
    n_thr = sum(1 for r in rl if r["baseline"] and r["at_thr"])
    n_lim = sum(1 for r in rl if r["at_limit"])
    n_multi = sum(1 for r in rl if r["baseline"] and len(r["reasons"]) >= 2)
    if n_thr:
        ctx.label("boundary:pev==threshold")
    if n_lim:
        ctx.label("boundary:turnout_factor==limit")
    if n_multi:
        ctx.label("overlap:>=2_reasons")
    if any(r["baseline"] and r["absent"] for r in rl):
        ctx.label("has:absent_zero_filled")
    if any(r["baseline"] and not r["above"] and r["bw"] != 0 and (r["tf"] <= case["tfl"] or r["tf"] >= case["tfu"]) and not r["reasons"] for r in rl):
        ctx.label("below_threshold_strange_tf_still_predicted")
    bucket = lambda k: "0" if k == 0 else "<=19" if k <= 19 else str(k) if k <= 22 else ">22"  # noqa: E731
    ctx.label("n_above:" + bucket(n_above))
    ctx.label("n_above_not_blocklisted_or_zero_baseline:" + bucket(sum(1 for r in rl if r["baseline"] and r["above"] and BLOCK not in r["reasons"] and ZERO not in r["reasons"])))
    if out_cats:
        ctx.label("outlier_category_present")
    if observed and any(set(ids) & {r["id"] for r in rl if r["reasons"] and r["reasons"][0] not in (OUT_T, OUT_M)} for _, ids in calls):
        ctx.label("overlap:outlier_flag_on_unit_with_earlier_reason")
    if n_thr or n_lim or n_multi:
        sample = {
            "part": "component",
            "estimands": estimands,
            "policy": case["hu"],
            "threshold": case["thr"],
            "limits": [case["tfl"], case["tfu"]],
            "outlier_models": {"turnout": case["fit_t"], "margin": case["fit_m"], "z": case["z"]},
            "n_units": len(case["units"]),
            "n_unexpected": len(case["extra"]),
            "units_at_or_above_threshold": n_above,
            "boundary_units": [
                {"id": r["id"], "pev": r["pev"], "turnout_factor": r["tf"], "reasons": r["reasons"], "category": r["cat"], "frame": r["frame"]}
                for r in rl
                if r["baseline"] and (r["at_thr"] or r["at_limit"] or len(r["reasons"]) >= 2)
            ][:4],
        }
        ctx.nontrivial(signature("component", case["hu"], mode, rl), sample)


# ---- end-to-end slice -------------------------------------------------------------------------------------------
def check_e2e(case, ctx):
    from elexmodel.handlers.data.CombinedData import CombinedDataHandler

    ctx.evaluated()
    req = case["req"]
    mp = req["mp"]
    rr = common.run_and_reference(case, ctx)
    if rr is None:
        return
    run, recs = rr

    def viol(kind, detail, sig=""):
        ctx.violation("e2e_" + kind, detail, case, sig=f"e2e_{kind}|{sig}" if sig else "e2e_" + kind)

    ut = run.tables.get("unit_data")
    if ut is None:
        viol("no_unit_table", f"'unit' requested, tables returned: {sorted(run.tables)}")
        return
    cats = common.unit_category_series(ut)
    if cats is None:
        viol("unit_category_column", f"unit table has no single unit_category column: {list(ut.columns)}")
        return
    ids = [str(x) for x in ut["geographic_unit_fips"]]
    by_id = {r["id"]: r for r in recs}
    if sorted(ids) != sorted(by_id):
        miss = sorted(set(by_id) - set(ids))[:4]
        extra = sorted(set(ids) - set(by_id))[:4]
        viol("unit_ids", f"missing={miss} extra={extra} duplicated={sorted({i for i in ids if ids.count(i) > 1})[:4]}")
        return
    got = {uid: (cat, float(rep)) for uid, cat, rep in zip(ids, cats, ut["reporting"])}
    for uid, (cat, rep) in got.items():
        r = by_id[uid]
        if cat != r["cat"]:
            viol(
                "unit_category",
                f"{uid}: client '{cat}', reference '{r['cat']}' (reasons {r['reasons']}, pev={r['pev']} threshold={req['thr']} turnout_factor={r['tf']!r}; "
                f"model_parameters limits={mp.get('turnout_factor_lower', 'default 0.5')},{mp.get('turnout_factor_upper', 'default 2.0')})",
                sig=f"{_short(r['cat'])}=>{_short(str(cat))}",
            )
            break
        if float(rep) != float(r["reporting"]):
            viol("reporting_flag", f"{uid}: reporting={rep} reference {r['reporting']} (category {cat})", sig=_short(str(cat)))
            break
    flagged = [c for c, _ in got.values() if c in (OUT_T, OUT_M)]
    n_above = sum(1 for r in recs if r["baseline"] and r["above"])
    if flagged:
        t_on = mp.get("fit_turnout_outlier_model", True)
        m_on = mp.get("fit_margin_outlier_model", True) and "margin" in req["estimands"]
        if n_above <= N_MIN_OUTLIER or (OUT_T in flagged and not t_on) or (OUT_M in flagged and not m_on):
            viol("outlier_category_not_allowed", f"categories {sorted(set(flagged))} with turnout model={t_on} margin model={m_on} units at/above threshold={n_above}")

    # the client must hand the documented defaults to the component: same answer as a direct call given them
    pre, cur = make_frames(case)
    pdata = client_preprocess(pre, case, list(req["estimands"]))
    handler = CombinedDataHandler(pdata, cur, list(req["estimands"]), case["gut"], handle_unreporting=req["hu"])
    frames = handler.get_units(
        req["thr"],
        mp.get("turnout_factor_lower", 0.5),
        mp.get("turnout_factor_upper", 2.0),
        list(mp.get("unit_blocklist", [])),
        list(mp.get("postal_code_blocklist", [])),
        mp.get("fit_margin_outlier_model", True),
        mp.get("fit_turnout_outlier_model", True),
        mp.get("outlier_z_threshold", 2.0),
        list(req["aggregates"]),
    )
    direct = {}
    for df in frames:
        for uid, cat, rep in zip(df["geographic_unit_fips"], df["unit_category"], df["reporting"]):
            direct[str(uid)] = (cat, float(rep))
    diff = sorted(u for u in set(direct) | set(got) if direct.get(u) != got.get(u))
    if diff:
        u = diff[0]
        viol(
            "defaults_differ",
            f"{len(diff)} unit(s) differ from get_units called with the documented defaults (0.5 / 2.0 / outliers on / z 2.0 unless model_parameters "
            f"say otherwise: {({k: v for k, v in mp.items() if k != 'unit_blocklist'})}), e.g. {u}: client {got.get(u)} direct {direct.get(u)}",
            sig=f"{_short(str(direct.get(u, ('-',))[0]))}=>{_short(str(got.get(u, ('-',))[0]))}",
        )

    # ---- coverage bookkeeping
    p = ref.request_params(case)
    n_thr = sum(1 for r in recs if r["baseline"] and r["pev"] == p["thr"])
    n_lim = sum(1 for r in recs if r["baseline"] and r["above"] and r["bw"] != 0 and (r["tf"] == p["tfl"] or r["tf"] == p["tfu"]))
    n_multi = sum(1 for r in recs if r["baseline"] and len(r["reasons"]) >= 2)
    defaults = [k for k in ("turnout_factor_lower", "fit_turnout_outlier_model", "fit_margin_outlier_model", "outlier_z_threshold") if k not in mp]
    for k in defaults:
        ctx.label("e2e_default_used:" + k)
    if flagged:
        ctx.label("e2e_outlier_category_present")
        if "fit_turnout_outlier_model" not in mp or "fit_margin_outlier_model" not in mp:
            ctx.label("e2e_outlier_category_present_with_default_on")
    if n_lim and "turnout_factor_lower" not in mp:
        ctx.label("e2e_boundary_at_default_limit")
    if n_thr or n_lim or n_multi:
        mode = estimand_mode(req["estimands"])
        s = common.summarize_case(case, recs)
        s["part"] = "e2e"
        ctx.nontrivial(signature("e2e|" + ",".join(defaults), req["hu"], mode, recs), s)


# ---- runner interface -------------------------------------------------------------------------------------------
def run_part(name, seed, n, tier, ctx, si, sc):
    if name == "component":
        hyp_run(COMPONENT, lambda case: check_component(case, ctx), seed, n, tier)
    else:
        hyp_run(E2E, lambda case: check_e2e(case, ctx), seed, n, tier)


def replay(case, ctx):
    if case.get("kind") == "component":
        check_component(case, ctx)
    else:
        check_e2e(case, ctx)


def facts(case):
    if case.get("kind") == "component":
        return {"kind": "component", "hu": case["hu"], "mode": estimand_mode(case["estimands"])}
    return {"kind": "e2e", "pi": case["req"]["pi"], "office": case["office"], "hu": case["req"]["hu"]}


def shrink_candidates(case):
    if case.get("kind") != "component":
        yield from common.generic_shrink_candidates(case)
        return
    for i in range(len(case["extra"])):
        c = copy.deepcopy(case)
        del c["extra"][i]
        yield c
    units = case["units"]
    n = len(units)
    chunk = max(1, n // 2)
    while chunk >= 1:
        for start in range(0, n, chunk):
            c = copy.deepcopy(case)
            removed = {u["id"] for u in c["units"][start : start + chunk]}
            c["units"] = c["units"][:start] + c["units"][start + chunk :]
            c["ub"] = [b for b in c["ub"] if b not in removed]
            if c["units"]:
                yield c
        if chunk == 1:
            break
        chunk //= 2
    for key, val in (("sb", []), ("ub", []), ("stale_results", False), ("with_feature", False), ("fit_t", False), ("fit_m", False)):
        if case.get(key):
            c = copy.deepcopy(case)
            c[key] = val
            yield c
    if len(case["estimands"]) > 1:
        for i in range(len(case["estimands"])):
            c = copy.deepcopy(case)
            del c["estimands"][i]
            yield c
