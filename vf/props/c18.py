"""C18 - nothing is persisted unless asked; the live results are saved before a too-few-units error.

Fault/configuration enumeration.  The finite space

    save_output subset of {results, data, config, conformalization}   (16)
  x environment {local, non-local}                                     (2)
  x estimator {nonparametric, gaussian, bootstrap}                     (3)
  x outcome of the minimum-units gate {enough, too few}                (2)
  x aggregates shape {unit table requested or not} x {1, 2 levels}     (4)      = 768 combinations

is enumerated completely in the thorough tier (each combination on a `G` and on an `H` election) and by a
covering sample in the quick tier (every (subset, environment, estimator, gate) 4-tuple once, shapes rotated so
that every pair with a shape is covered as well).  The election of a combination is drawn with Hypothesis from
vf.gen.election_case (small fixed shapes, exactly need+k modelled reporting units) and is a pure function of
(VERIF_SEED, combination).

The environment is import-time configuration of the code under test (utils/file_utils.py), so this module never
imports elexmodel at top level: every task runs in a brand-new interpreter (FRESH_PROCESS_PER_TASK) which sets
APP_ENV / DATA_ENV / MODEL_S3_BUCKET / MODEL_S3_PATH_ROOT *before* the first `import elexmodel`; a replay runs in
a subprocess for the same reason.  `boto3.client` is replaced by a recorder (third-party seam, no repository hook);
every case runs with a fresh temporary directory as cwd, which is listed afterwards and removed.
"""
from __future__ import annotations

import itertools
import json
import os
import re
import shutil
import subprocess
import sys
import tempfile

from vf import gen
from vf.runner import exc_signature, hyp_run

ID = "C18"
LEVEL = "fault_enumeration"
FRESH_PROCESS_PER_TASK = True  # the environment has to be set before elexmodel is imported: one interpreter per task

RULE = (
    "Every combination of save_output subset (16) x environment (APP_ENV=local | non-local with APP_ENV equal to or different from DATA_ENV) x estimator (3) x gate "
    "outcome (exactly need+{3,4,6} | need-{1,2} modelled reporting units) x aggregates shape (unit table or not, 1-2 "
    "levels) is run end-to-end through ModelClient.get_estimates (plus get_national_summary_votes_estimates after "
    "completed bootstrap runs whose last level is the top level) on a generated election, with a recording S3 client "
    "and a fresh temp cwd.  Checked: no read and no other remote call; every put has Bucket == <bucket>-<DATA_ENV> and a "
    "whitespace-free Key under <root>-<DATA_ENV>/<election id>/; live-results objects (results/<office>/<unit type>/"
    "current.csv, current_counties.csv) exactly once each iff 'results' requested and env non-local - also when the run "
    "ends in ModelNotEnoughSubunitsException (saved before the gate) - and before any prediction object; prediction "
    "objects exactly one per returned table iff 'results', non-local and the run completed (none after a gate error), "
    "nat_sum_data exactly once after a summary call under the same condition; gaussian/ objects never unless "
    "'conformalization' requested, and for a completed non-local gaussian run one conformalization_data + one bounds "
    "object per (estimand, level, alpha); no object of any other kind; local tree empty unless 'config' "
    "(config/<id>.json) / 'data' (data/<id>/<office>/data_<type>.csv) requested, and those files present after a "
    "completed run; any exception other than the gate error is a violation.  Non-trivial: non-local environment and "
    "save_output non-empty.  Distinct = (save_output subset, environment, estimator, observed gate outcome, shape)."
)
ASSUMPTIONS = [
    "persistence is observed at two seams only: the boto3 S3 client (boto3.client replaced by a recorder before any S3Util is built) and the file tree under the working directory; writes to absolute paths elsewhere would go unseen",
    "elections are restricted to shapes on which the estimators have no known unrelated defect (no unexpected / non-modelled units, no classification level, no covariates or fixed effects, outlier models off, winsorize off); the election is not part of the enumerated space",
    "the non-local environments are (APP_ENV, DATA_ENV) in {(dev,dev), (prod,dev), (prod,prod), (staging,prod)}; the local environment is APP_ENV=local with DATA_ENV=dev (the documented developer setup); bucket and root are expected to carry the DATA environment, as utils/file_utils.py documents by construction",
    "the statement is silent on whether conformalization data is written in the local environment, by a non-gaussian estimator, or before a gate error: only 'never when not requested' is asserted there",
    "presence of the config/data files is required only after a completed run (they are allowed, not required, after a gate error)",
    "the national-summary call is made only when the last requested level is the office's top level (other orders hit finding F07, which belongs to C08)",
]
FLOOR = {"quick": 22, "thorough": 90}

SO_NAMES = ["results", "data", "config", "conformalization"]
PIS = ["nonparametric", "gaussian", "bootstrap"]
GATES = ["enough", "too_few"]
ENVS = ["local", "nonlocal"]
SHAPES = [(u, lv) for u in (0, 1) for lv in (1, 2)]  # (unit table requested, number of levels)
BUCKET = "vfbucket"
ROOT = "vfroot"
# non-local variants: half with APP_ENV == DATA_ENV, half with different values (code of one stage on the data of
# another): the bucket and the root carry the DATA environment, the local/non-local switch is the APP environment
ENV_VARIANTS = {"local": [("local", "dev")], "nonlocal": [("dev", "dev"), ("prod", "dev"), ("prod", "prod"), ("staging", "prod")]}
HERE = os.path.dirname(os.path.dirname(os.path.dirname(os.path.abspath(__file__))))
MARK = "C18-RESULT "
N_SHARDS = 8


# ---- the enumerated space ------------------------------------------------------------------------------------
def so_list(mask, flip=False):
    names = [n for i, n in enumerate(SO_NAMES) if mask >> i & 1]
    return names[::-1] if flip else names


def combos(tier, base_seed):
    """All combinations of this tier, in a fixed order; each a JSON dict.  `base_seed` only rotates the shapes /
    offices of the quick tier's covering sample."""
    out = []
    if tier == "quick":
        for (mi, ei, pi_i, gi) in itertools.product(range(16), range(2), range(3), range(2)):
            # rotation chosen so that, for each single save_output flag, every (flag set?, environment, estimator,
            # gate, shape) cell and every (subset, shape) pair occurs (measured in pairs_covered)
            k = mi + (mi >> 2) + ei + pi_i + 2 * gi + base_seed
            u, lv = SHAPES[k % 4]
            office = "GH"[(bin(mi).count("1") + pi_i + gi + ei + base_seed) % 2]
            out.append((mi, ENVS[ei], PIS[pi_i], GATES[gi], u, lv, office))
    else:
        for (mi, ei, pi_i, gi, (u, lv), office) in itertools.product(range(16), range(2), range(3), range(2), SHAPES, "GH"):
            out.append((mi, ENVS[ei], PIS[pi_i], GATES[gi], u, lv, office))
    res = []
    for idx, (mi, env, pi, gate, u, lv, office) in enumerate(out):
        res.append({"idx": idx, "mask": mi, "so": so_list(mi, flip=bool(idx % 2)), "env": env, "pi": pi, "gate": gate, "unit": u, "levels": lv, "office": office})
    return res


def combo_key(c, gate=None):
    return f"{c['mask']:02d}|{c['env']}|{c['pi']}|{gate or c['gate']}|u{c['unit']}l{c['levels']}"


def pairs_covered(cs):
    """Number of covered / possible value pairs over the five enumerated dimensions."""
    dims = {
        "mask": lambda c: c["mask"],
        "env": lambda c: c["env"],
        "pi": lambda c: c["pi"],
        "gate": lambda c: c["gate"],
        "shape": lambda c: (c["unit"], c["levels"]),
    }
    sizes = {"mask": 16, "env": 2, "pi": 3, "gate": 2, "shape": 4}
    cov = tot = 0
    for a, b in itertools.combinations(dims, 2):
        cov += len({(dims[a](c), dims[b](c)) for c in cs})
        tot += sizes[a] * sizes[b]
    # per single flag: (flag requested?, environment, estimator, gate, shape) cells
    fcov = ftot = 0
    for bit in range(4):
        fcov += len({(c["mask"] >> bit & 1, c["env"], c["pi"], c["gate"], c["unit"], c["levels"]) for c in cs})
        ftot += 2 * 2 * 3 * 2 * 4
    return cov, tot, fcov, ftot


def parts(tier):
    base = int(os.environ.get("VERIF_SEED", "1") or 1)
    cs = combos(tier, base)
    # one part per environment; 8 shards each = 16 fresh interpreters, one wave on 16 cores (each pays the import once)
    return [{"name": e, "n": sum(1 for c in cs if c["env"] == e), "max_shards": max(1, N_SHARDS)} for e in ENVS]


def build_aggregates(c):
    """Requested levels of a combination.  Bootstrap requests end with the office's top level so that the national
    summary can be called after every completed bootstrap run (another order is finding F07, property C08)."""
    k = c["idx"]
    boot = c["pi"] == "bootstrap"
    if c["office"] == "G":
        two = [["county_fips", "postal_code"]] if boot else [["county_fips", "postal_code"], ["postal_code", "county_fips"]]
        aggs = ["postal_code"] if c["levels"] == 1 else two[k % len(two)]
    else:
        if c["levels"] == 1:
            aggs = [["district"], ["postal_code"]][k % 2]
        else:
            two = [["county_fips", "district"], ["postal_code", "district"], ["county_fips", "postal_code"]]
            if not boot:
                two = two + [["district", "county_fips"], ["postal_code", "county_fips"]]
            aggs = two[k % len(two)]
    aggs = list(aggs)
    if c["unit"]:
        aggs = aggs + ["unit"] if k % 5 else ["unit"] + aggs
    return aggs


def case_strategy(c):
    offs = gen.st.sampled_from([3, 4, 6]) if c["gate"] == "enough" else gen.st.sampled_from([-1, -2])
    return gen.election_case(
        estimators=(c["pi"],),
        offices=(c["office"],),
        max_states=2,
        max_counties=2,
        max_other=5,
        alphas_pool=(0.5, 0.7, 0.8, 0.9),
        max_alphas=2,
        statuses=(gen.N, gen.N, gen.N0, gen.A),
        allow_extra=False,
        allow_features=False,
        allow_fe=False,
        allow_state_blocklist=False,
        outliers=(False,),
        exact_reporting=offs,
        special_counties=False,
        Bs=(10, 20),
        lambdas=(None, 0.1),
        tf_limits=((0.5, 2.0),),
        min_nonrep=1,
    )


def env_dict(envname, variant):
    app, data = ENV_VARIANTS[envname][variant % len(ENV_VARIANTS[envname])]
    return {"APP_ENV": app, "DATA_ENV": data, "MODEL_S3_BUCKET": BUCKET, "MODEL_S3_PATH_ROOT": ROOT}


def make_case(c, seed, tier, env):
    got = []
    hyp_run(case_strategy(c), got.append, seed, 3, tier)
    if not got:
        raise RuntimeError("C18 harness: Hypothesis produced no election")
    case = got[-1]
    req = case["req"]
    req["aggregates"] = build_aggregates(c)
    req["save_output"] = list(c["so"])
    req["mp"].pop("winsorize", None)
    case["env"] = dict(env)
    case["combo"] = dict(c)
    top = ("postal_code",) if c["office"] == "G" else ("postal_code", "district")
    last = [a for a in req["aggregates"] if a != "unit"][-1]
    case["nat_sum"] = bool(c["pi"] == "bootstrap" and last in top)
    return case


# ---- harness: environment, recorder, temp cwd ------------------------------------------------------------------
class RecorderMisuse(Exception):
    """Raised by the fake S3 client when the code under test reads from (or otherwise calls) remote storage."""


class Recorder:
    log = []  # shared by every client object the code builds
    reads = []
    others = []
    phase = "idle"

    def put_object(self, **kw):
        body = kw.get("Body")
        try:
            n = len(body)
        except TypeError:
            n = -1
        Recorder.log.append(
            {
                "order": len(Recorder.log),
                "phase": Recorder.phase,
                "Bucket": kw.get("Bucket"),
                "Key": kw.get("Key"),
                "ContentType": kw.get("ContentType"),
                "len": n,
                "extra_args": sorted(set(kw) - {"Body", "Bucket", "Key", "ContentType"}),
            }
        )
        return {"ResponseMetadata": {"HTTPStatusCode": 200}}

    def get_object(self, **kw):
        Recorder.reads.append({"phase": Recorder.phase, "Bucket": kw.get("Bucket"), "Key": kw.get("Key")})
        raise RecorderMisuse(f"get_object({kw.get('Bucket')}, {kw.get('Key')}): nothing may be read in this check")

    def __getattr__(self, name):
        if name.startswith("__"):
            raise AttributeError(name)

        def call(*a, **kw):
            Recorder.others.append({"phase": Recorder.phase, "call": name})
            raise RecorderMisuse(f"unexpected S3 client call {name}")

        return call

    @classmethod
    def reset(cls):
        cls.log, cls.reads, cls.others, cls.phase = [], [], [], "idle"


_READY = {}


def setup_process(env):
    """Set the import-time configuration, then import elexmodel and install the recorder.  Idempotent for the same
    environment; a different environment in the same interpreter is a harness error."""
    if _READY:
        if _READY["env"] != env:
            raise RuntimeError(f"C18 harness: interpreter already configured for {_READY['env']}, asked for {env}")
        return
    if any(m == "elexmodel" or m.startswith("elexmodel.") for m in sys.modules):
        raise RuntimeError("C18 harness: elexmodel was imported before the environment was set")
    os.environ.update(env)
    os.environ.setdefault("APP_LOG_LEVEL", "CRITICAL")
    import boto3

    boto3.client = lambda *a, **k: Recorder()
    from elexmodel.utils import file_utils

    import elexmodel.client  # noqa: F401

    # only that the variables were READ is a harness matter; how bucket and root are composed from them is behaviour
    # under test (the oracle compares every recorded Bucket / Key with <bucket>-<DATA_ENV> and <root>-<DATA_ENV>)
    if file_utils.APP_ENV != env["APP_ENV"] or file_utils.DATA_ENV != env["DATA_ENV"]:
        raise RuntimeError("C18 harness: import-time configuration did not take effect")
    _READY["env"] = dict(env)


def list_tree(root):
    files, dirs = [], []
    for d, dn, fn in os.walk(root):
        rel = os.path.relpath(d, root)
        for x in dn:
            dirs.append(os.path.normpath(os.path.join(rel, x)))
        for x in fn:
            files.append(os.path.normpath(os.path.join(rel, x)))
    return sorted(files), sorted(dirs)


def execute(case):
    """Run the case under the recorder in a fresh cwd.  Returns the observation (plain JSON) and the exception."""
    from vf import drive

    setup_process(case["env"])
    Recorder.reset()
    base = drive.tmp_root()
    tmp = tempfile.mkdtemp(prefix="vf_c18_", dir=base)
    real = os.path.realpath(tmp)
    if real.startswith("/repo") or real.startswith(HERE + os.sep):
        shutil.rmtree(tmp, ignore_errors=True)
        raise RuntimeError(f"C18 harness: temp dir {real} inside the repository or the harness")
    old = os.getcwd()
    obs = {"outcome": None, "exc": None, "exc_sig": "", "tables": [], "summary": None, "summary_exc": None, "summary_sig": ""}
    os.chdir(tmp)
    try:
        Recorder.phase = "estimates"
        run = drive.run_case(case)
        if run.ok:
            obs["outcome"] = "completed"
            obs["tables"] = sorted(run.tables)
        elif type(run.exc).__name__ == "ModelNotEnoughSubunitsException":
            obs["outcome"] = "too_few"
        else:
            obs["outcome"] = "exception"
            obs["exc"] = f"{type(run.exc).__name__}: {run.exc}"[:600]
            obs["exc_sig"] = exc_signature(run.exc)
            obs["exc_misuse"] = isinstance(run.exc, RecorderMisuse)
        if run.ok and case.get("nat_sum"):
            Recorder.phase = "summary"
            try:
                t = run.client.get_national_summary_votes_estimates(None, 0, list(case["req"]["alphas"]))
                obs["summary"] = "ok" if t is not None else "none"
            except Exception as e:  # classified by the oracle
                obs["summary"] = "exception"
                obs["summary_exc"] = f"{type(e).__name__}: {e}"[:600]
                obs["summary_sig"] = exc_signature(e)
                obs["summary_misuse"] = isinstance(e, RecorderMisuse)
        Recorder.phase = "idle"
        obs["files"], obs["dirs"] = list_tree(tmp)
    finally:
        os.chdir(old)
        shutil.rmtree(tmp, ignore_errors=True)
    obs["puts"] = list(Recorder.log)
    obs["reads"] = list(Recorder.reads)
    obs["others"] = list(Recorder.others)
    return obs


# ---- oracle (from the statement; never looks at the code) -------------------------------------------------------
def aggregate_list_last(office, agg):
    """Name of the finest level of the table for requested level `agg` (district offices always carry district)."""
    order = ["postal_code", "district", "county_classification", "county_fips"]
    base = ["postal_code", "district"] if office[:1] in ("H", "Y", "Z") else ["postal_code"]
    return sorted(set(base + [agg]), key=order.index)[-1]


def _key_family(nk, prefix):
    """first path component below the election id + object name: one bucket per place a key is built"""
    rest = nk[len(prefix):] if nk.startswith(prefix) else nk
    parts_ = rest.split("/")
    return parts_[0] + "/" + parts_[-1] if len(parts_) > 1 else parts_[0]


def judge(case, obs):
    """Returns (violations [(kind, detail, sig)], labels [str])."""
    V, L = [], []
    env, req, office, gut = case["env"], case["req"], case["office"], case["gut"]
    eid = case.get("election_id", gen.ELECTION_ID)
    so = set(req["save_output"])
    nonlocal_env = env["APP_ENV"] != "local"
    want_remote_results = "results" in so and nonlocal_env
    outcome = obs["outcome"]
    bucket = f"{env['MODEL_S3_BUCKET']}-{env['DATA_ENV']}"
    prefix = f"{env['MODEL_S3_PATH_ROOT']}-{env['DATA_ENV']}/{eid}/"

    def viol(kind, detail, sig=None):
        V.append((kind, detail, sig if sig is not None else kind))

    # -- reads / other remote calls / exceptions
    for r in obs["reads"]:
        viol("remote_read", f"get_object {r['Bucket']} {r['Key']!r} during {r['phase']}")
    for r in obs["others"]:
        viol("remote_call_unexpected", f"S3 client call {r['call']} during {r['phase']}")
    if outcome == "exception" and not obs.get("exc_misuse"):
        viol("exception", f"get_estimates: {obs['exc']}", obs["exc_sig"])
    if obs["summary"] == "exception" and not obs.get("summary_misuse"):
        viol("exception", f"get_national_summary_votes_estimates: {obs['summary_exc']}", obs["summary_sig"])
    if outcome == "exception":
        # an aborted run: the per-object expectations below assume a defined outcome; the generic key / gating
        # clauses still apply to whatever was written
        L.append("outcome:exception")

    # -- every put: bucket, key shape; classify on the whitespace-free key so that one defect is one bucket
    cls = []
    for p in obs["puts"]:
        key = p["Key"] if isinstance(p["Key"], str) else repr(p["Key"])
        if p["Bucket"] != bucket:
            viol("bucket_wrong", f"Bucket {p['Bucket']!r} != {bucket!r} for key {key!r}")
        if re.search(r"\s", key):
            viol("key_whitespace", f"key contains whitespace: {key!r}", "key_whitespace:" + _key_family(re.sub(r"\s+", "", key), prefix))
        nk = re.sub(r"\s+", "", key)
        if not nk.startswith(prefix) or len(nk) <= len(prefix):
            viol("key_outside_root", f"key {key!r} is not under {prefix!r}")
            cls.append(("other", nk))
            continue
        rest = nk[len(prefix):]
        m = re.fullmatch(re.escape(f"results/{office}/{gut}/") + r"(current|current_counties)\.csv", rest)
        if m:
            cls.append(("live", m.group(1)))
            continue
        m = re.fullmatch(re.escape(f"predictions/{office}/{gut}/") + r"([^/]+)/current\.csv", rest)
        if m:
            cls.append(("pred", m.group(1)))
            continue
        m = re.fullmatch(re.escape(f"gaussian/{office}/{gut}/") + r"([^/]+)/(conformalization_data|bounds)\.csv", rest)
        if m:
            cls.append(("gauss", (m.group(1), m.group(2))))
            continue
        if rest.startswith("gaussian/"):
            cls.append(("gauss_other", rest))
            continue
        cls.append(("other", rest))
    puts = list(zip(obs["puts"], cls))

    for p, (k, v) in puts:
        if k == "other":
            viol("unexpected_object", f"object {p['Key']!r} is none of live results / prediction table / conformalization data (save_output={sorted(so)}, APP_ENV={env['APP_ENV']})", "unexpected_object:" + str(v).split("/")[0])

    # -- live results
    live = [(p, v) for p, (k, v) in puts if k == "live"]
    if not want_remote_results:
        if live:
            why = "results_written_unrequested" if "results" not in so else "results_written_local"
            viol(why, f"{len(live)} live-results object(s) written with save_output={sorted(so)} APP_ENV={env['APP_ENV']}")
    elif outcome in ("completed", "too_few"):
        names = sorted(v for _, v in live)
        if names != ["current", "current_counties"] or any(p["phase"] != "estimates" for p, _ in live):
            if outcome == "too_few":
                viol("results_not_saved_before_gate", f"run ended in the not-enough-subunits error with live-results objects {names} (expected current + current_counties)")
            else:
                viol("live_results_wrong", f"live-results objects {names}, expected exactly current + current_counties")

    # -- prediction tables
    pred_est = [(p, v) for p, (k, v) in puts if k == "pred" and p["phase"] == "estimates"]
    pred_sum = [(p, v) for p, (k, v) in puts if k == "pred" and p["phase"] == "summary"]
    if not want_remote_results:
        if pred_est or pred_sum:
            why = "predictions_written_unrequested" if "results" not in so else "predictions_written_local"
            viol(why, f"prediction objects {sorted(v for _, v in pred_est + pred_sum)} written with save_output={sorted(so)} APP_ENV={env['APP_ENV']}")
    else:
        if outcome == "completed":
            got = sorted(v for _, v in pred_est)
            if got != sorted(obs["tables"]):
                viol("predictions_mismatch", f"prediction objects {got} but returned tables {sorted(obs['tables'])}")
            if live and pred_est and max(p["order"] for p, _ in live) > min(p["order"] for p, _ in pred_est):
                viol("results_after_predictions", "a live-results object was written after a prediction object")
        elif outcome == "too_few" and pred_est:
            viol("predictions_after_gate_error", f"prediction objects {sorted(v for _, v in pred_est)} although the run raised the not-enough-subunits error")
        if obs["summary"] == "ok":
            n = sum(1 for _, v in pred_sum if v == "nat_sum_data")
            if n != 1:
                viol("nat_sum_not_saved", f"{n} nat_sum_data objects after the summary call (expected 1); summary-phase objects {sorted(v for _, v in pred_sum)}")
            extra = sorted(v for _, v in pred_sum if v != "nat_sum_data" and v not in obs["tables"])
            if extra:
                viol("predictions_mismatch", f"summary call wrote prediction objects {extra} that are not returned tables")
            if any(v != "nat_sum_data" for _, v in pred_sum):
                L.append("summary_rewrote_tables")
    for p, (k, v) in puts:
        if p["phase"] == "summary" and k != "pred":
            viol("summary_wrote_other", f"summary call wrote {p['Key']!r}")

    # -- conformalization data
    gauss = [(p, v) for p, (k, v) in puts if k == "gauss"]
    gauss_other = [p for p, (k, v) in puts if k == "gauss_other"]
    if "conformalization" not in so:
        if gauss or gauss_other:
            viol("conformalization_written_unrequested", f"{len(gauss) + len(gauss_other)} object(s) under gaussian/ with save_output={sorted(so)} (first {(gauss[0][0] if gauss else gauss_other[0])['Key']!r})")
    else:
        for p in gauss_other:
            viol("unexpected_object", f"object {p['Key']!r} under gaussian/ is neither conformalization_data nor bounds", "unexpected_object:gaussian")
        if req["pi"] == "gaussian" and outcome == "completed" and nonlocal_env:
            want = {}
            for est in req["estimands"]:
                for agg in req["aggregates"]:
                    if agg == "unit":
                        continue
                    for a in req["alphas"]:
                        for kind in ("conformalization_data", "bounds"):
                            kk = (f"{est}-{aggregate_list_last(office, agg)}-{a}", kind)
                            want[kk] = want.get(kk, 0) + 1
            have = {}
            for _, v in gauss:
                have[v] = have.get(v, 0) + 1
            if have != want:
                missing = sorted(k for k in want if have.get(k, 0) < want[k])
                surplus = sorted(k for k in have if have[k] > want.get(k, 0))
                viol("conformalization_objects_mismatch", f"missing {missing[:6]} surplus {surplus[:6]} (expected one data + one bounds object per estimand x level x alpha: {len(want)} keys)")
        elif gauss:
            L.append(f"conformalization_not_asserted:{'local' if not nonlocal_env else req['pi'] + '/' + str(outcome)}")

    # -- local files
    allowed = {}
    if "config" in so:
        allowed[os.path.normpath(f"config/{eid}.json")] = "config"
    if "data" in so:
        allowed[os.path.normpath(f"data/{eid}/{office}/data_{gut}.csv")] = "data"
    for f in obs.get("files", []):
        if f not in allowed:
            topdir = f.split(os.sep)[0]
            kind = {"config": "config_file_unrequested", "data": "data_file_unrequested"}.get(topdir, "unexpected_local_file")
            if topdir in so:
                kind = "unexpected_local_file"
            viol(kind, f"local file {f!r} created with save_output={sorted(so)}")
    allowed_dirs = set()
    for f in allowed:
        d = os.path.dirname(f)
        while d:
            allowed_dirs.add(d)
            d = os.path.dirname(d)
    for d in obs.get("dirs", []):
        if d not in allowed_dirs:
            viol("unexpected_local_dir", f"local directory {d!r} created with save_output={sorted(so)}")
    if outcome == "completed":
        for f, what in allowed.items():
            if f not in obs.get("files", []):
                viol(f"{what}_file_missing", f"'{what}' requested but {f!r} does not exist after a completed run (tree: {obs.get('files')})")
    return V, L


# ---- evaluation of one case ------------------------------------------------------------------------------------
def evaluate(case):
    obs = execute(case)
    V, L = judge(case, obs)
    c = case["combo"]
    req = case["req"]
    labels = [
        "env:" + case["env"]["APP_ENV"],
        "pi:" + req["pi"],
        "office:" + case["office"],
        "outcome:" + str(obs["outcome"]),
        "save_output:" + ("+".join(sorted(req["save_output"])) or "none"),
        f"shape:unit={c['unit']},levels={c['levels']}",
        f"puts:{min(len(obs['puts']), 20)}",
        f"local_files:{len(obs.get('files', []))}",
    ] + L
    if obs["summary"]:
        labels.append("summary_call:" + obs["summary"])
    intended = "completed" if c["gate"] == "enough" else "too_few"
    if obs["outcome"] != intended:
        labels.append("gate_outcome_not_as_constructed")
    return {
        "violations": [{"kind": k, "detail": d, "sig": s} for k, d, s in V],
        "labels": labels,
        "outcome": obs["outcome"],
        "summary": obs["summary"],
        "puts": [[p["order"], p["phase"], p["Bucket"], p["Key"], p["ContentType"], p["len"]] for p in obs["puts"]],
        "files": obs.get("files", []),
        "tables": obs["tables"],
    }


def record(case, res, ctx):
    ctx.evaluated()
    for lb in res["labels"]:
        ctx.label(lb)
    seen = set()
    for v in res["violations"]:
        if (v["kind"], v["sig"]) in seen:  # one case contributes once to a bucket
            continue
        seen.add((v["kind"], v["sig"]))
        ctx.violation(v["kind"], v["detail"], case, sig=v["sig"])
    c = case["combo"]
    if case["env"]["APP_ENV"] != "local" and case["req"]["save_output"] and res["outcome"] in ("completed", "too_few"):
        ctx.nontrivial(
            combo_key(c, {"completed": "enough", "too_few": "too_few"}[res["outcome"]]),
            {
                "combination": {k: c[k] for k in ("so", "env", "pi", "gate", "unit", "levels", "office")},
                "environment": case["env"],
                "aggregates": case["req"]["aggregates"],
                "alphas": case["req"]["alphas"],
                "estimands": case["req"]["estimands"],
                "n_units": len(case["units"]),
                "outcome": res["outcome"],
                "summary_call": res["summary"],
                "returned_tables": res["tables"],
                "puts(order,phase,bucket,key,content_type,len)": res["puts"][:12],
                "local_files": res["files"],
            },
        )


def run_part(name, seed, n, tier, ctx, si, sc):
    base = seed // 1000
    cs = [c for c in combos(tier, base) if c["env"] == name]
    mine = cs[si::sc]
    if len(mine) != n:
        raise RuntimeError(f"C18 harness: shard {si}/{sc} of {name} has {len(mine)} combinations, runner planned {n}")
    env = env_dict(name, si)
    setup_process(env)
    for c in mine:
        case = make_case(c, base * 1_000_003 + c["idx"] * 7919 + 17, tier, env)
        record(case, evaluate(case), ctx)
    ctx.extra["combinations_run"] = len(mine)
    if si == 0:
        allc = combos(tier, base)
        cov, tot, fcov, ftot = pairs_covered(allc)
        ctx.extra["cov_pairs_covered"] = (
            f"{cov}/{tot} value pairs over (save_output subset, environment, estimator, gate outcome, shape); "
            f"{fcov}/{ftot} cells (one save_output flag on/off, environment, estimator, gate outcome, shape)"
        )
        if cov != tot or fcov != ftot:
            raise RuntimeError(f"C18 harness: covering sample incomplete ({cov}/{tot}, {fcov}/{ftot})")
        if name == "nonlocal":
            ctx.extra["cov_combinations_planned"] = len(allc)
            if tier == "thorough":
                full = {(c["mask"], c["env"], c["pi"], c["gate"], c["unit"], c["levels"], c["office"]) for c in allc}
                if len(full) != 16 * 2 * 3 * 2 * 4 * 2:
                    raise RuntimeError("C18 harness: thorough enumeration is not the full product")
                ctx.extra["cov_exhaustive_subspace"] = (
                    "all 768 combinations of save_output subset (16) x environment (2) x estimator (3) x gate outcome (2) x "
                    "{unit table or not} x {1,2 levels}, each on a G and on an H election (1536 runs); the election itself is sampled"
                )


# ---- replay: always in a subprocess, because the environment is import-time configuration -----------------------
def _child_main():
    case = json.loads(sys.stdin.read())
    res = evaluate(case)
    sys.stdout.write("\n" + MARK + json.dumps(res, default=str) + "\n")
    sys.stdout.flush()


def replay(case, ctx):
    if "env" not in case or "combo" not in case:
        raise RuntimeError("C18 replay: the stored case carries no environment")
    env = dict(os.environ)
    env.update({k: str(v) for k, v in case["env"].items()})
    env.setdefault("PYTHONPATH", os.pathsep.join([os.path.join(os.environ.get("VERIF_REPO", "/repo"), "src"), HERE]))
    p = subprocess.run(
        [sys.executable, "-c", "from vf.props import c18; c18._child_main()"],
        input=json.dumps(case),
        capture_output=True,
        text=True,
        env=env,
        cwd=HERE,
        timeout=900,
    )
    line = next((ln for ln in reversed(p.stdout.splitlines()) if ln.startswith(MARK)), None)
    if p.returncode != 0 or line is None:
        raise RuntimeError(f"C18 replay subprocess failed (rc={p.returncode}): {p.stderr[-2000:]}")
    record(case, json.loads(line[len(MARK):]), ctx)


def facts(case):
    c = case.get("combo", {})
    so = set(case.get("req", {}).get("save_output", []))
    return {
        "pi": case.get("req", {}).get("pi"),
        "env": c.get("env"),
        "gate": c.get("gate"),
        "office": case.get("office"),
        "results": "results" in so,
        "conformalization": "conformalization" in so,
        "data": "data" in so,
        "config": "config" in so,
    }
