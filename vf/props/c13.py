"""C13 - what is reported for one request does not depend on what else was requested."""
from __future__ import annotations

import copy

import numpy as np

from vf import gen
from vf.drive import AGG_TABLE, level_keys, run_case
from vf.props import common
from vf.props.c11 import rows_by_key, same
from vf.runner import exc_signature, hyp_run

ID = "C13"
LEVEL = "exploration"
RULE = (
    "Metamorphic pairs of requests on one generated election with a complete feed (every baseline unit has a feed "
    "row): base request R and R' = subset / superset / permutation of the interval levels, of the aggregate levels, or "
    "of the vote-count estimands (conformal estimators; bootstrap varies levels and aggregates); offices G and H; three "
    "estimators; a quarter of the conformal requests carry a per-county fixed effect. Oracle: for every (estimand, level, alpha) present in both runs the cells pred, results, lower, upper "
    "and reporting of rows matched by the level's key columns are bit-identical; every table has exactly the key / "
    "category columns of its level (no _x/_y suffixes), one row per key, in both runs. Pairs where either request ends "
    "in the too-few-units error have nothing to compare and are counted trivial. Non-trivial: R' != R, both complete, "
    ">=1 nonreporting unit. Distinct = (estimator, office, dimension varied, operation, base request shape)."
)
ASSUMPTIONS = ["complete feeds: no baseline unit is absent from the feed", "bitwise comparison after casting numeric columns to float64"]
FLOOR = {"quick": 20, "thorough": 120}

COMPLETE_STATUSES = (gen.N, gen.N, gen.N, gen.N0, gen.NH, gen.Z, gen.ZN, gen.B, gen.BN, gen.BZ, gen.BZN, gen.T_HI, gen.T_LO)


def parts(tier):
    return [{"name": "pairs", "n": 352 if tier == "quick" else 3200}]


@gen.st.composite
def _strategy(draw):
    st = gen.st
    case = draw(gen.election_case(statuses=COMPLETE_STATUSES, special_counties=False, min_nonrep=1, max_alphas=3, alphas_pool=(0.5, 0.6, 0.7, 0.8), slack=(0, 8), max_other=10, lopsided=0.15))  # lopsided: units one party did not contest last time (baseline 0 for ONE estimand)
    req = case["req"]
    if "unit" not in req["aggregates"]:
        req["aggregates"] = req["aggregates"] + ["unit"]
    if req["pi"] != "bootstrap":
        k = draw(st.integers(1, 3))
        req["estimands"] = draw(st.lists(st.sampled_from(gen.VOTE_ESTIMANDS), min_size=k, max_size=k, unique=True))
        # a fine-grained fixed effect (one level per county): which levels the interval models can fit depends on
        # which rows are training rows, i.e. on the calibration split of each interval level
        if draw(st.integers(0, 3)) == 0:
            req["fe"] = {"county_fips": ["all"]}
    dims = ["alphas", "aggregates"] + (["estimands"] if req["pi"] != "bootstrap" else [])
    dim = draw(st.sampled_from(dims))
    op = draw(st.sampled_from(["subset", "superset", "permutation"]))
    pools = {
        "alphas": [0.5, 0.6, 0.7, 0.8],
        "aggregates": gen.valid_aggregates(case["office"]) + ["unit"],
        "estimands": list(gen.VOTE_ESTIMANDS),
    }
    cur = list(req[dim])
    if op == "subset":
        if len(cur) < 2:
            op = "superset"
        else:
            keep = draw(st.lists(st.sampled_from(cur), min_size=1, max_size=len(cur) - 1, unique=True))
            new = [x for x in cur if x in keep]
    if op == "superset":
        rest = [x for x in pools[dim] if x not in cur]
        if not rest:
            op = "permutation"
        else:
            add = draw(st.lists(st.sampled_from(rest), min_size=1, max_size=len(rest), unique=True))
            pos = draw(st.booleans())
            new = (add + cur) if pos else (cur + add)
    if op == "permutation":
        new = list(draw(st.permutations(cur)))
        if new == cur and len(cur) > 1:
            new = cur[::-1]
    case["variant"] = {"dim": dim, "op": op, "new": new}
    return case


STRATEGY = _strategy()


def value_columns(e, alphas, margin):
    cols = [f"pred_{e}", f"results_{e}"] + [f"{s}_{a}_{e}" for a in alphas for s in ("lower", "upper")]
    return cols


def check_table_shape(name, t, keys, estimands, alphas, viol):
    cols = list(t.columns)
    bad = [c for c in cols if c.endswith("_x") or c.endswith("_y")]
    if bad:
        viol("suffixed_columns", f"{name}: {bad}")
        return False
    non_value = [c for c in cols if not c.startswith(("pred_", "results_", "lower_", "upper_"))]
    expect = set(keys) | {"reporting"} | ({"unit_category"} if name == "unit_data" else set())
    if set(non_value) != expect or len(non_value) != len(set(non_value)):
        viol("key_columns", f"{name}: key/category columns {sorted(non_value)} expected {sorted(expect)}")
        return False
    exp_val = set()
    for e in estimands:
        exp_val |= set(value_columns(e, alphas, e == "margin"))
        if e == "margin":
            exp_val.add("pred_turnout")
    got_val = {c for c in cols if c.startswith(("pred_", "results_", "lower_", "upper_"))}
    if got_val != exp_val:
        viol("value_columns", f"{name}: missing {sorted(exp_val - got_val)} unexpected {sorted(got_val - exp_val)}")
        return False
    kt = [tuple(x) for x in t[keys].itertuples(index=False, name=None)]
    if len(set(kt)) != len(kt):
        viol("duplicate_rows", f"{name}: {len(kt) - len(set(kt))} duplicated keys")
        return False
    return True


def check_case(case, ctx):
    ctx.evaluated()
    var = case["variant"]
    A = {k: v for k, v in case.items() if k != "variant"}
    B = copy.deepcopy(A)
    B["req"][var["dim"]] = list(var["new"])
    pi = A["req"]["pi"]
    office = A["office"]
    ctx.label("pi:" + pi)
    ctx.label(f"vary:{var['dim']}:{var['op']}")
    viol = lambda kind, detail, sig=None: ctx.violation(kind, detail, case, sig=sig or kind)  # noqa: E731
    ra, rb = run_case(A), run_case(B)
    for tag, r in (("base", ra), ("variant", rb)):
        if not r.ok and not common.is_gate_error(r.exc):
            viol("exception", f"{tag} request: {type(r.exc).__name__}: {r.exc}", sig=exc_signature(r.exc))
            return
    if not ra.ok or not rb.ok:
        ctx.label("pair:too_few_units")
        return
    for run, c in ((ra, A), (rb, B)):
        for agg in c["req"]["aggregates"]:
            keys = level_keys(office, agg)
            if not check_table_shape(AGG_TABLE[agg], run.tables[AGG_TABLE[agg]], keys, c["req"]["estimands"], c["req"]["alphas"], viol):
                return
    common_aggs = [a for a in A["req"]["aggregates"] if a in B["req"]["aggregates"]]
    common_est = [e for e in A["req"]["estimands"] if e in B["req"]["estimands"]]
    common_alpha = [a for a in A["req"]["alphas"] if a in B["req"]["alphas"]]
    for agg in common_aggs:
        keys = level_keys(office, agg)
        name = AGG_TABLE[agg]
        a_rows, _ = rows_by_key(ra.tables[name], keys)
        b_rows, _ = rows_by_key(rb.tables[name], keys)
        if set(a_rows) != set(b_rows):
            viol("row_keys_differ", f"{name}: only base {sorted(set(a_rows) - set(b_rows), key=str)[:3]} only variant {sorted(set(b_rows) - set(a_rows), key=str)[:3]}")
            return
        cols = ["reporting"] + (["unit_category"] if agg == "unit" else [])
        for e in common_est:
            cols += [f"pred_{e}", f"results_{e}"] + [f"{s}_{a}_{e}" for a in common_alpha for s in ("lower", "upper")]
            if e == "margin":
                cols.append("pred_turnout")
        for k, row in a_rows.items():
            for c in cols:
                if not same(row[c], b_rows[k][c]):
                    viol("cell_depends_on_request", f"{name} {k} {c}: {row[c]} with {A['req'][var['dim']]} vs {b_rows[k][c]} with {var['new']} ({var['dim']})", sig=f"cell|{pi}|{var['dim']}")
                    return
    has_nonrep = any(u["status"] in (gen.N, gen.N0, gen.NH) for u in A["units"])
    if list(var["new"]) != list(A["req"][var["dim"]]) and has_nonrep:
        ctx.nontrivial(
            [pi, office, var["dim"], var["op"], A["req"]["alphas"], A["req"]["aggregates"], A["req"]["estimands"]],
            {"base_request": common.summarize_case(A)["request"], "variant": var},
        )


def run_part(name, seed, n, tier, ctx, si, sc):
    hyp_run(STRATEGY, lambda case: check_case(case, ctx), seed, n, tier)


def replay(case, ctx):
    check_case(case, ctx)


def facts(case):
    return {"pi": case["req"]["pi"], "office": case["office"], "dim": case.get("variant", {}).get("dim")}


def shrink_candidates(case):
    for c in common.generic_shrink_candidates({k: v for k, v in case.items() if k != "variant"}):
        if all(len(c["req"][d]) == len(case["req"][d]) for d in ("alphas", "aggregates", "estimands")):
            c["variant"] = case["variant"]
            yield c
