"""C04 - nonparametric intervals are conformally calibrated."""
from __future__ import annotations

import math

import numpy as np
import pandas as pd
from hypothesis import strategies as st

from vf import gen
from vf.runner import exc_signature, hyp_run

ID = "C04"
LEVEL = "exploration"
RULE = (
    "(a) calibration invariant, differential at model level: generated reporting/nonreporting frames (n from the minimum "
    "upward, duplicated rows giving tied scores, equal and wildly unequal baseline weights (the frame's baseline_weights column equal to or unrelated to the estimand's own baseline), negative corrections, alpha "
    "free in (0.05,0.97) or a usual level, robust on/off, with/without a covariate and a fixed effect) go through "
    "NonparametricElectionModel.get_unit_prediction_intervals; the reference takes the UNADJUSTED bounds and the "
    "calibration frame from get_unit_prediction_interval_bounds (same arguments; trusted building block) and computes "
    "(which must be held out: fewer calibration than reporting units, no unit twice) and computes "
    "from the statement q = alpha(1+1/n_cal), scores = max(lower - r, r - upper), c_pop = smallest score whose "
    "baseline-weighted share of scores <= it exceeds q, c = max(c_pop, quantile(scores, q)) if robust; asserts the "
    "invariant on itself and then returned lower/upper == round(max((b -/+ c) w + w, counted)). Non-trivial: at least "
    "one alternative rule (>= instead of >, unweighted, without the 1+1/n factor, robust flipped) gives a different "
    "correction. In half of the cases every reporting unit also has an identical not-yet-reporting twin: the unadjusted "
    "bounds behind each calibration unit's score must equal the bounds its twin is given (the calibration units are "
    "scored against their own interval, incl. fixed-effect levels the training rows did not see). (b) coverage, Monte Carlo: exchangeable elections with equal baselines, iid covariate, residuals from "
    "{normal, t2, heteroskedastic, discrete with ties}, feature sets {none, x}, n in {min, min+1, min+3, 2 min, 60}, "
    "alpha in {0.7,0.8,0.9}; one designated nonreporting unit per election; the number of trials whose true count lies "
    "in [lower, upper] must not be significantly below alpha: exact binomial P(Bin(M,alpha) <= K) >= 1e-6 per cell. "
    "Distinct = (n - min class, alpha class, robust, ties, weights kind, which alternatives differ) / coverage cell."
)
ASSUMPTIONS = [
    "(a) trusts get_unit_prediction_interval_bounds (quantile-regression fits and the calibration split) as inputs: it decides the calibration rule, not the regressions",
    "(b) is a statistical test with stated power: a coverage shortfall smaller than about 3.5/sqrt(M) is not detectable; it samples n rather than covering every n",
    "(b) draws its Monte Carlo noise from numpy generators seeded by (VERIF_SEED, cell index)",
]
FLOOR = {"quick": 40, "thorough": 150}

USUAL = [0.5, 0.7, 0.8, 0.9, 0.95]


def parts(tier):
    if tier == "quick":
        return [{"name": "diff", "n": 2400}, {"name": "coverage", "n": 16}]
    return [{"name": "diff", "n": 40000}, {"name": "coverage", "n": 16}]


# ---- (a) ------------------------------------------------------------------------------------------------------------
@st.composite
def diff_case(draw):
    alpha = draw(st.sampled_from(USUAL)) if draw(st.booleans()) else round(draw(st.floats(0.05, 0.97)), 4)
    m = gen.nonparam_min_units(alpha)
    n = m + draw(st.sampled_from([0, 0, 1, 2, 3, 5, 10, 25, 60]))
    n = min(n, 400)
    return {
        "alpha": alpha,
        "n": n,
        "n_non": draw(st.integers(1, 4)),
        "robust": draw(st.booleans()),
        "weights": draw(st.sampled_from(["equal", "lognormal", "wild", "one_giant"])),
        "dups": draw(st.sampled_from([0, 0, 2, 5])),
        "feature": draw(st.booleans()),
        "fe": draw(st.booleans()),
        "shift": draw(st.sampled_from([0.0, 0.3, -0.3])),
        "noise": draw(st.sampled_from([0.001, 0.05, 0.3])),
        "seed": draw(st.integers(0, 10000)),
        "model_seed": draw(st.integers(0, 50)),
        "twins": draw(st.booleans()),
        "other_weights": draw(st.booleans()),
    }


def diff_frames(c):
    rng = np.random.default_rng(c["seed"])
    n, k = c["n"], c["n_non"]
    tot = n + k
    if c["weights"] == "equal":
        base = np.full(tot, 1000.0)
    elif c["weights"] == "lognormal":
        base = np.round(np.exp(rng.normal(6, 1, tot)))
    elif c["weights"] == "wild":
        base = np.round(np.exp(rng.normal(5, 3, tot))) + 1
    else:
        base = np.round(np.exp(rng.normal(5, 0.5, tot)))
        base[rng.integers(0, n)] *= 5000
    x = rng.normal(0, 1, tot)
    cls = rng.choice(["u", "r", "s"], size=tot)
    resid = c["shift"] + 0.05 * x * (1 if c["feature"] else 0) + rng.normal(0, c["noise"], tot)
    if c["dups"] and n > c["dups"] + 2:
        # duplicated units -> identical (x, residual) -> tied scores
        for j in range(c["dups"]):
            src, dst = int(rng.integers(0, n)), int(rng.integers(0, n))
            x[dst], cls[dst], resid[dst] = x[src], cls[src], resid[src]
    last = base + 1
    df = pd.DataFrame(
        {
            "postal_code": "AA",
            "geographic_unit_fips": [f"101_p{i}" for i in range(tot)],
            "county_classification": cls,
            "x1": x,
            "last_election_results_turnout": last,
            # baseline_weights is the baseline TURNOUT whatever the estimand is; for an estimand like dem it is spread
            # differently over the units than the estimand's own baseline, which is what the calibration weighs by
            "baseline_weights": np.round(base * rng.uniform(1.1, 6.0, tot)) if c.get("other_weights") else base,
            "unit_category": "expected",
        }
    )
    rep = df.iloc[:n].copy().reset_index(drop=True)
    rep["reporting"] = 1
    rep["residuals_turnout"] = resid[:n]
    rep["results_turnout"] = np.round(last[:n] * (1 + resid[:n]))
    non = df.iloc[n:].copy().reset_index(drop=True)
    non["reporting"] = 0
    non["results_turnout"] = np.round(last[n:] * rng.choice([0.0, 0.3, 3.0], size=k))
    if c.get("twins"):
        # every reporting unit also has an identical not-yet-reporting twin (same covariate, fixed-effect level and
        # baseline): the interval reported for the twin of a calibration unit IS that unit's interval
        tw = df.iloc[: min(n, 80)].copy().reset_index(drop=True)
        tw["geographic_unit_fips"] = "twin_" + tw["geographic_unit_fips"]
        tw["reporting"] = 0
        tw["results_turnout"] = 0.0
        non = pd.concat([non, tw], axis=0).reset_index(drop=True)
    return rep, non


def make_model(c):
    from elexmodel.models.NonparametricElectionModel import NonparametricElectionModel

    return NonparametricElectionModel(
        {
            "features": ["x1"] if c["feature"] else [],
            "fixed_effects": {"county_classification": ["all"]} if c["fe"] else {},
            "robust": c["robust"],
            "seed": c["model_seed"],
        }
    )


def pop_correction(scores, weights, q, strict=True):
    order = np.argsort(scores, kind="stable")
    s, w = scores[order], weights[order] / weights.sum()
    # share of weight with score <= s_i  (group ties)
    out = None
    for v in np.unique(s):
        share = w[s <= v].sum()
        if (share > q) if strict else (share >= q):
            out = v
            break
    return out


def check_diff(c, ctx):
    ctx.evaluated()
    rep, non = diff_frames(c)
    alpha = c["alpha"]
    try:
        m1 = make_model(c)
        m1.get_unit_predictions(rep.copy(), non.copy(), "turnout")
        got = m1.get_unit_prediction_intervals(rep.copy(), non.copy(), alpha, "turnout")
        m2 = make_model(c)
        m2.get_unit_predictions(rep.copy(), non.copy(), "turnout")
        conf_frac = m2._compute_conf_frac(len(rep), alpha)
        b = m2.get_unit_prediction_interval_bounds(rep.copy(), non.copy(), conf_frac, alpha, "turnout")
    except Exception as e:
        ctx.violation("exception", f"{type(e).__name__}: {e}", c, sig=exc_signature(e))
        return
    cal = b.conformalization
    n_cal = len(cal)
    if n_cal != len(got.conformalization):
        ctx.violation("split_not_reproducible", f"{n_cal} vs {len(got.conformalization)}", c, sig="split")
        return
    if n_cal >= len(rep) or n_cal < 1 or cal["geographic_unit_fips"].duplicated().any():
        # "held-out calibration units": at least one reporting unit is used for training only, none is counted twice
        ctx.violation("calibration_not_held_out", f"{n_cal} calibration units out of {len(rep)} reporting units (alpha={alpha})", c, sig="not_held_out")
        return
    if c.get("twins"):
        # the calibration units are scored against THEIR OWN interval: the unadjusted bounds behind a calibration
        # unit's conformity score are the bounds its identical not-yet-reporting twin is given
        pos = {u: i for i, u in enumerate(non["geographic_unit_fips"])}
        bl, bu = np.asarray(b.lower, float), np.asarray(b.upper, float)
        r_cal = cal["residuals_turnout"].to_numpy(float)
        own_l = cal["lower_bounds"].to_numpy(float) + r_cal
        own_u = r_cal - cal["upper_bounds"].to_numpy(float)
        n_tw = 0
        for i, u in enumerate(cal["geographic_unit_fips"]):
            j = pos.get("twin_" + u)
            if j is None:
                continue
            n_tw += 1
            for name, own, tw in (("lower", own_l[i], bl[j]), ("upper", own_u[i], bu[j])):
                if not abs(own - tw) <= 1e-9 * (1 + abs(tw)):
                    ctx.violation(
                        "calibration_unit_scored_against_another_interval",
                        f"calibration unit {u}: its conformity score uses the unadjusted {name} bound {own:.9f}, but an identical not-yet-reporting unit is given {tw:.9f} (fixed effect={c['fe']}, feature={c['feature']}, {len(rep) - n_cal} training rows)",
                        c,
                        sig=f"twin|{name}",
                    )
                    return
        if n_tw and c["fe"]:
            ctx.label("twins_of_calibration_units_with_fixed_effect")
    q = alpha * (1 + 1 / n_cal)
    scores = np.maximum(cal["lower_bounds"].to_numpy(float), cal["upper_bounds"].to_numpy(float))
    w = cal["last_election_results_turnout"].to_numpy(float)
    c_pop = pop_correction(scores, w, q)
    if c_pop is None:
        ctx.label("no_score_exceeds_q")
        return  # q == 1 exactly with all weight: no score has share > q; the statement's invariant is unsatisfiable
    c_unw = float(np.quantile(scores, min(q, 1.0)))
    corr = max(c_pop, c_unw) if c["robust"] else c_pop
    # boundary: a cumulative share that equals q up to rounding (e.g. equal weights, q = 8/9 with n_cal = 9). Whether
    # it "exceeds" q is then decided by floating-point summation order; both neighbours are accepted and counted.
    c_pop_lo = pop_correction(scores, w, q - 1e-9)
    c_pop_hi = pop_correction(scores, w, q + 1e-9)
    candidates = {corr}
    if c_pop_lo != c_pop_hi:
        ctx.label("boundary_share_equals_q")
        for cp in (c_pop_lo, c_pop_hi):
            if cp is not None:
                candidates.add(max(cp, c_unw) if c["robust"] else cp)
    # invariant on the reference itself
    share = w[scores <= corr].sum() / w.sum()
    if not share > q - 1e-12:
        raise AssertionError("reference correction violates its own invariant")
    lastn = non["last_election_results_turnout"].to_numpy(float)
    resn = non["results_turnout"].to_numpy(float)
    lo, up = np.asarray(got.lower, float), np.asarray(got.upper, float)
    failure = None
    for cand in sorted(candidates):
        lo_raw = (np.asarray(b.lower, float) - cand) * lastn + lastn
        up_raw = (np.asarray(b.upper, float) + cand) * lastn + lastn
        lo_ref, up_ref = np.round(np.maximum(lo_raw, resn)), np.round(np.maximum(up_raw, resn))
        failure = None
        for name, a_, r_, raw in (("lower", lo, lo_ref, np.maximum(lo_raw, resn)), ("upper", up, up_ref, np.maximum(up_raw, resn))):
            bad = a_ != r_
            if bad.any():
                i = int(np.argmax(bad))
                near_half = abs((raw[i] % 1) - 0.5) < 1e-6
                if not (near_half and abs(a_[i] - r_[i]) <= 1):
                    failure = (name, f"{name}[{i}] = {a_[i]} but the statement's correction c={cand:.9f} (q={q:.6f}, n_cal={n_cal}, robust={c['robust']}) gives {r_[i]}")
                    break
        if failure is None:
            break
    if failure is not None:
        ctx.violation("not_calibrated_as_stated", failure[1], c, sig=f"calibration|{failure[0]}")
        return
    # which alternative rules would have given another correction?
    alts = {}
    a1 = pop_correction(scores, w, q, strict=False)
    alts["geq"] = a1 is not None and a1 != c_pop
    a2 = pop_correction(scores, np.ones_like(w), q)
    alts["unweighted"] = a2 is not None and a2 != c_pop
    a3 = pop_correction(scores, w, alpha)
    alts["no_1_plus_1_over_n"] = a3 is not None and a3 != c_pop
    alts["robust_flipped"] = (max(c_pop, c_unw) if not c["robust"] else c_pop) != corr
    for k, v in alts.items():
        if v:
            ctx.label("alt_differs:" + k)
    if corr < 0:
        ctx.label("negative_correction")
    if len(np.unique(scores)) < len(scores):
        ctx.label("tied_scores")
    if any(alts.values()):
        mm = gen.nonparam_min_units(alpha)
        ctx.nontrivial(
            ["diff", min(c["n"] - mm, 11), round(alpha, 1), c["robust"], c["weights"], c["dups"] > 0, c["feature"], c["fe"], sorted(k for k, v in alts.items() if v), corr < 0],
            {"part": "diff", "case": c, "n_cal": n_cal, "q": q, "correction": corr, "alternatives_that_differ": [k for k, v in alts.items() if v]},
        )


# ---- (b) ------------------------------------------------------------------------------------------------------------
DISTS = ["normal", "t2", "hetero", "discrete"]


def coverage_cells(tier):
    cells = []
    for alpha in (0.7, 0.8, 0.9):
        m = gen.nonparam_min_units(alpha)
        ns = [m, m + 1, m + 3, 2 * m, 60] if tier != "quick" else [m, m + 1, 2 * m, 60]
        for n in ns:
            for dist in DISTS:
                for feat in (False, True):
                    if tier == "quick" and feat and dist in ("t2", "discrete"):
                        continue
                    cells.append((alpha, n, dist, feat))
    return cells


def residuals(rng, dist, x, size):
    if dist == "normal":
        e = rng.normal(0, 0.08, size)
    elif dist == "t2":
        e = 0.03 * rng.standard_t(2, size)
    elif dist == "hetero":
        e = rng.normal(0, 1, size) * (0.02 + 0.08 * np.abs(x))
    else:
        e = rng.choice([-0.1, -0.05, 0.0, 0.05, 0.1], size=size)
    return np.clip(0.05 + 0.04 * x + e, -0.9, 5)


def run_coverage(seed, tier, ctx, si, sc):
    from scipy.stats import binom

    from elexmodel.models.NonparametricElectionModel import NonparametricElectionModel

    M = 400 if tier == "quick" else 4000
    cells = coverage_cells(tier)
    for ci, (alpha, n, dist, feat) in enumerate(cells):
        if ci % sc != si:
            continue
        rng = np.random.default_rng([seed // 1000, ci])
        K = 0
        done = 0
        for _ in range(M):
            tot = n + 1
            x = rng.normal(0, 1, tot)
            r = residuals(rng, dist, x, tot)
            last = np.full(tot, 1001.0)
            df = pd.DataFrame(
                {
                    "postal_code": "AA",
                    "geographic_unit_fips": [f"101_p{i}" for i in range(tot)],
                    "x1": x,
                    "last_election_results_turnout": last,
                    "baseline_weights": last - 1,
                    "unit_category": "expected",
                }
            )
            rep = df.iloc[:n].copy().reset_index(drop=True)
            rep["reporting"] = 1
            rep["residuals_turnout"] = r[:n]
            rep["results_turnout"] = np.round(last[:n] * (1 + r[:n]))
            non = df.iloc[n:].copy().reset_index(drop=True)
            non["reporting"] = 0
            non["results_turnout"] = 0.0
            truth = float(np.round(last[n] * (1 + r[n])))
            model = NonparametricElectionModel({"features": ["x1"] if feat else [], "fixed_effects": {}, "seed": int(rng.integers(0, 1000))})
            try:
                model.get_unit_predictions(rep, non, "turnout")
                pi = model.get_unit_prediction_intervals(rep, non, alpha, "turnout")
            except Exception as e:
                ctx.violation("exception", f"coverage cell {(alpha, n, dist, feat)}: {type(e).__name__}: {e}", {"cell": [alpha, n, dist, feat]}, sig=exc_signature(e))
                break
            lo, up = float(np.asarray(pi.lower)[0]), float(np.asarray(pi.upper)[0])
            K += int(lo <= truth <= up)
            done += 1
        ctx.evaluated(done)
        if done < M:
            continue
        p = float(binom.cdf(K, M, alpha))
        cell = {"alpha": alpha, "n": n, "dist": dist, "feature": feat, "trials": M, "covered": K, "rate": K / M, "p_value_if_coverage_were_alpha": p}
        ctx.extra.setdefault("cov_coverage_cells", []).append(cell)
        ctx.label("coverage_trials", M)
        if p < 1e-6:
            ctx.violation("coverage_below_alpha", f"{cell}", {"cell": [alpha, n, dist, feat], "covered": K, "trials": M}, sig=f"coverage|{alpha}|{dist}")
        ctx.nontrivial(f"coverage|{alpha}|{n}|{dist}|{feat}", {"part": "coverage", **cell} if ci % 7 == 0 else None)


def run_part(name, seed, n, tier, ctx, si, sc):
    if name == "diff":
        hyp_run(diff_case(), lambda c: check_diff(c, ctx), seed, n, tier)
    else:
        run_coverage(seed, tier, ctx, si, sc)
        ctx.extra["cov_detectable_shortfall"] = f"about {3.5 / math.sqrt(400 if tier == 'quick' else 4000):.3f} per cell (3.5/sqrt(M))"


def replay(case, ctx):
    if "cell" in case:
        return  # a Monte Carlo cell is re-run by the coverage part itself (statistical, not a single input)
    check_diff(case, ctx)


def facts(case):
    return {"part": "coverage" if "cell" in case else "diff"}
