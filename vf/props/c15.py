"""C15 - gaussian intervals use a group's own calibration if big enough, else its parent."""
from __future__ import annotations

import numpy as np
from scipy import stats

from vf import gen, ref
from vf.drive import AGG_TABLE, level_keys
from vf.props import common
from vf.runner import hyp_run

ID = "C15"
LEVEL = "exploration"
RULE = (
    "Generated larger elections (40-170 units; counties of very different sizes so calibration groups of size 0, <10, "
    "=10, >10 coexist; whole-county outages; states without calibration units; levels postal_code / county_fips / "
    "county_classification / district, for district offices also the three-level county and classification tables; beta, winsorize=False) run through the client with the gaussian estimator, the "
    "level under test last. The oracle reads the calibration frame, the per-group models and the unadjusted unit "
    "bounds the model retains and recomputes from the statement: T = min(10, n_cal); for each group with nonreporting "
    "units the source rows = its own calibration rows if >= T, else its parent's (district contest, then state) if >= T, else all; (1) exactly one "
    "model row per such group and no other; (2) mu = weighted median, var_inflate = sum w^2/(sum w)^2 of the source "
    "rows, sigma = an independent scipy.stats.bootstrap call with the run's seed on the source rows; (3) returned "
    "lower/upper = round(max(W + sum w b_unit -/+ ppf((3+alpha)/4; W mu, sigma sqrt(SS + infl W^2)), partial_g) + "
    "counted_g), finite, on the row of the group. Non-trivial: the level has groups on >=2 different fallback branches "
    "(own / state / all). Distinct = (level, branch histogram, n states)."
)
ASSUMPTIONS = [
    "district-office county / classification levels have three key columns; there the chain is read as own group -> its (state, district) contest -> its state -> all calibration units (the property's title says 'else its parent'; the statement's 'its state' is the parent of a two-level group)",
    "weighted medians that are not unique with margin 1e-9 are skipped",
    "the unadjusted unit bounds and the calibration frame retained on the model are trusted inputs (C04 / C14 cover them)",
]
FLOOR = {"quick": 12, "thorough": 60}


def parts(tier):
    return [{"name": "e2e", "n": 480 if tier == "quick" else 4000}]


@gen.st.composite
def _strategy(draw):
    st = gen.st
    office = draw(st.sampled_from(["G", "G", "H"]))
    case = draw(
        gen.election_case(
            estimators=("gaussian",),
            offices=(office,),
            slack=(20, 110),
            max_other=40,
            min_nonrep=6,
            max_counties=4,
            alphas_pool=(0.5, 0.7, 0.9),
            max_alphas=2,
            outliers=(False,),
            allow_fe=False,
            statuses=(gen.N, gen.N, gen.N, gen.N0, gen.NH, gen.A, gen.Z, gen.B),
            force_estimands=None,
        )
    )
    req = case["req"]
    req["estimands"] = req["estimands"][:1]
    req["mp"].pop("winsorize", None)
    levels = ["postal_code", "county_fips", "county_classification"] if office == "G" else ["postal_code", "district", "county_fips", "county_classification"]
    level = draw(st.sampled_from(levels))
    others = [a for a in req["aggregates"] if a not in (level, "unit") and a in levels]
    req["aggregates"] = ["unit"] + others + [level]
    case["level"] = level
    return case


STRATEGY = _strategy()


def wmedian(x, w):
    """smallest value whose cumulative normalised weight exceeds 1/2 (average of the neighbours at exactly 1/2);
    returns (value, decidable)"""
    order = np.argsort(x, kind="stable")
    xs, ws = x[order], w[order] / w.sum()
    cum = np.cumsum(ws)
    decidable = not np.any(np.abs(cum[:-1] - 0.5) < 1e-9)
    idx = int(np.argmax(cum > 0.5))
    return float(xs[idx]), decidable


def check_case(case, ctx):
    ctx.evaluated()
    rr = common.run_and_reference(case, ctx)
    if rr is None:
        return
    run, recs = rr
    req = case["req"]
    level = case["level"]
    problems = []
    branches = reference_check(case, run, recs, level, req["estimands"][0], req["alphas"][-1], lambda kind, detail: problems.append((kind, detail)))
    for kind, detail in problems[:1]:
        ctx.violation(kind, detail, case, sig=kind)
    if branches is None or problems:
        return
    for b, n in branches.items():
        ctx.label(f"branch:{b}", n)
    ctx.label("level:" + level)
    if len(branches) >= 2:
        ctx.nontrivial([level, case["office"], sorted(branches.items()), len(case["states"]), req["alphas"][-1]], common.summarize_case(case, recs) | {"level": level, "branches": branches})


def reference_check(case, run, recs, level, e, alpha, viol):
    """Recomputes, from the statement, the gaussian interval of every group of `level` for the (estimand, alpha)
    whose per-group models the model object still holds (the last ones computed) and reports disagreements through
    viol(kind, detail).  Returns the branch histogram, or None when nothing could be checked."""
    req = case["req"]
    office = case["office"]
    keys = level_keys(office, level)
    if len(keys) > 3:
        return None
    model = run.client.model
    rh = run.client.results_handler
    non = rh.nonreporting_units
    if len(non) == 0:
        return None
    cal = model.conformalization_data_agg
    mb = model.modeled_bounds_agg
    if cal is None or mb is None:
        return None
    lb_units = np.asarray(model.alpha_to_nonreporting_lower_bounds[alpha], float)
    ub_units = np.asarray(model.alpha_to_nonreporting_upper_bounds[alpha], float)
    wcol = f"last_election_results_{e}"
    n_cal = len(cal)
    T = min(10, n_cal)
    beta = req["mp"].get("beta", 1)
    seed = req["mp"].get("seed", 4191)
    q = (3 + alpha) / 4
    table = run.tables[AGG_TABLE[level]]
    trow = {tuple(r[k] for k in keys): r for r in table.to_dict("records")}
    groups_ref = ref.ref_groups(recs, keys)
    non_keys = [tuple(x) for x in non[keys].itertuples(index=False, name=None)]
    non_groups = {}
    for i, k in enumerate(non_keys):
        non_groups.setdefault(k, []).append(i)
    cal_keys = [tuple(x) for x in cal[keys].itertuples(index=False, name=None)]
    cal_states = list(cal["postal_code"])
    mb_keys = [tuple(x) for x in mb[keys].itertuples(index=False, name=None)]
    if sorted(map(str, mb_keys)) != sorted(map(str, non_groups)):
        viol("model_rows", f"groups with outstanding units {sorted(non_groups, key=str)[:6]} but model rows for {sorted(mb_keys, key=str)[:6]}")
        return
    mb_row = {k: r for k, r in zip(mb_keys, mb.to_dict("records"))}
    branches = {}
    lbv = cal["lower_bounds"].to_numpy(float)
    ubv = cal["upper_bounds"].to_numpy(float)
    wv = cal[wcol].to_numpy(float)
    sigma_cache = {}
    for k, idxs in non_groups.items():
        # own group, then each parent in turn (for the district-office county / classification levels the first parent
        # is the (state, district) contest, then the state), then all calibration units
        src, branch = list(range(n_cal)), "all"
        for depth in range(len(keys), 0, -1):
            rows_d = [i for i, ck in enumerate(cal_keys) if ck[:depth] == k[:depth]]
            if len(rows_d) >= T:
                src = rows_d
                branch = "own" if depth == len(keys) else ("state" if depth == 1 else "district")
                break
        branches[branch] = branches.get(branch, 0) + 1
        r = mb_row[k]
        w = wv[src]
        infl = float(np.sum(w**2) / np.sum(w) ** 2)
        if not common.close(float(r["var_inflate"]), infl, rel=1e-12, abs_=1e-15):
            viol("wrong_source_var_inflate", f"{level} {k} ({branch}, {len(src)} rows): var_inflate {r['var_inflate']} reference {infl}")
            return
        for side, vals in (("lower", lbv), ("upper", ubv)):
            mu, dec = wmedian(vals[src], w)
            if dec and not common.close(float(r[f"mu_{side}_bound"]), mu, rel=1e-12, abs_=1e-15):
                viol("wrong_source_mu", f"{level} {k} ({branch}, {len(src)} rows): mu_{side} {r[f'mu_{side}_bound']} reference {mu}")
                return
            if req["mp"].get("winsorize"):
                continue  # the winsorised scale is not re-derived here; (3) below still uses the row's own sigma
            ck = (side, tuple(src))
            if ck not in sigma_cache:
                sigma_cache[ck] = beta * float(
                    stats.bootstrap(
                        vals[src].reshape(1, -1), lambda x, axis: np.std(x, ddof=1, axis=-1), confidence_level=q, method="basic", n_resamples=10000, random_state=seed
                    ).confidence_interval.high
                )
            if not common.close(float(r[f"sigma_{side}_bound"]), sigma_cache[ck], rel=1e-9, abs_=1e-12):
                viol("wrong_source_sigma", f"{level} {k} ({branch}): sigma_{side} {r[f'sigma_{side}_bound']} reference {sigma_cache[ck]}")
                return
        # (3) bounds formula on the right row
        wn = non[wcol].to_numpy(float)[idxs]
        W, SS = float(wn.sum()), float((wn**2).sum())
        agg_lo, agg_up = float((wn * lb_units[idxs]).sum()), float((wn * ub_units[idxs]).sum())
        partial = float(non[f"results_{e}"].to_numpy(float)[idxs].sum())
        members = groups_ref.get(k, [])
        counted = float(sum(m["res"][e] for m in members if not (m["cat"] == ref.EXPECTED and not m["reporting"])))
        out = {}
        for side, agg_b, sign in (("lower", agg_lo, -1), ("upper", agg_up, +1)):
            mu = float(r[f"mu_{side}_bound"])
            sd = float(r[f"sigma_{side}_bound"]) * np.sqrt(SS + float(r["var_inflate"]) * W**2)
            corr = float(stats.norm.ppf(q, loc=W * mu, scale=sd))
            raw = max(W + agg_b + sign * corr, partial) + counted
            out[side] = raw
        if k not in trow:
            viol("group_missing_in_table", f"{level} {k}")
            return
        for side in ("lower", "upper"):
            got = float(trow[k][f"{side}_{alpha}_{e}"])
            raw = out[side]
            if not np.isfinite(got):
                viol("bound_not_finite", f"{level} {k} {side}: {got}")
                return
            if got != float(np.round(raw)):
                near_half = abs((raw % 1) - 0.5) < 1e-6
                if not (near_half and abs(got - np.round(raw)) <= 1):
                    viol("bound_not_from_own_statistics", f"{level} {k} ({branch}) {side}_{alpha}_{e} = {got}; reference from this group's statistics {raw:.4f}")
                    return
    # groups without outstanding units: exactly their counted votes (one interval per group)
    for k, r in trow.items():
        if k not in non_groups:
            for side in ("lower", "upper"):
                if float(r[f"{side}_{alpha}_{e}"]) != float(r[f"results_{e}"]):
                    viol("reported_group_interval", f"{level} {k}: {side} {r[f'{side}_{alpha}_{e}']} results {r[f'results_{e}']}")
                    return
    return branches


def run_part(name, seed, n, tier, ctx, si, sc):
    hyp_run(STRATEGY, lambda case: check_case(case, ctx), seed, n, tier)


def replay(case, ctx):
    check_case(case, ctx)


def facts(case):
    return {"level": case.get("level"), "office": case["office"]}


def shrink_candidates(case):
    for c in common.generic_shrink_candidates(case):
        if c["req"]["aggregates"] and c["req"]["aggregates"][-1] == case["level"] and len(c["req"]["alphas"]) == len(case["req"]["alphas"]):
            yield c
