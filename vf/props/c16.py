"""C16 - fitting and prediction design matrices are aligned and identifiable.

Part "component" drives elexmodel's Featurizer the way its callers do (prepare_data on reporting + nonreporting
[+ unexpected] rows, filter_to_active_features on the fitting slice, generate_holdout_data on the rest) and
compares the two matrices with a reference design written from the property statement (this file never looks at
the Featurizer's own bookkeeping lists, only at the frames it returns).

Part "e2e" is a thin relabelling-invariance slice through ModelClient.get_estimates: moving nonreporting units
to other baseline row positions must not change any unit's numbers.
"""
from __future__ import annotations

import copy

import numpy as np
import pandas as pd
from hypothesis import strategies as st

from vf import gen, ref
from vf.drive import canon, frames_equal_bitwise, run_case
from vf.props import common
from vf.runner import exc_signature, hyp_run

ID = "C16"
LEVEL = "exploration"
RULE = (
    "component: Featurizer driven as its callers do (rows ordered reporting, nonreporting, unexpected/non-modelled; "
    "reporting 1/0/0) on Hypothesis-generated frames: 0-3 fixed effects (four documented names + one free name), "
    "given as list or dict, parameter 'all' / ['all'] / selected levels (present, absent, none), levels placed by "
    "construction only in reporting / only in nonreporting / only in unexpected rows / several blocks, missing "
    "levels and covariates on unexpected rows, 0-3 features in any order incl. baseline_normalized_margin*, "
    "centring on/off, intercept (off only without fixed effects), states_for_separate_model with and without "
    "reporting rows; fit = filter_to_active_features(x[:n_fit]) and hold = generate_holdout_data(x[n_fit:]) are "
    "compared with a reference design matrix computed from the case. e2e: nonparametric and bootstrap elections "
    "with fixed effects run twice, the second time with the nonreporting units moved to other baseline rows; the matrices the models really use are observed (conformal: every fit matrix; bootstrap: the fit and the prediction matrix handed to the strata step) and checked against the clauses (no constant dummy, one absorbed level per effect, indicator / zeros / 1/(k+1) rows). "
    "Non-trivial: >=1 fixed effect with a level seen only outside the fitting rows (e2e: a completed pair in which "
    ">=2 nonreporting units changed rows). Distinct = sorted per-effect (|fitted levels|, #unseen levels, blocks "
    "where the unseen levels occur) (e2e: estimator, the same profile, number of moved units)."
)
ASSUMPTIONS = [
    "fixed-effect names are distinct and none is a string prefix of another, of a feature name or of 'intercept'; level values are non-empty strings other than 'other'/'all' (Featurizer identifies dummy columns by startswith)",
    "rows with reporting==1 always have unit_category 'expected' and come first (what get_units and the three callers pass); every fitting row carries a level for every fixed effect",
    "add_intercept=False only without fixed effects (no estimator does otherwise); scale_features only without separate-state models and with non-constant features, and then only the mean-zero clause is checked",
    "which observed level is absorbed, the order of columns after the baseline-margin block, the value of the intercept on rows of states_for_separate_model states, and the centring of per-state copies are not specified by the statement and not asserted",
    "e2e: outlier models disabled so that the set of nonreporting units is known from the case; bootstrap compared on pred_* only (interval draws are positional by design); gaussian left out (not deterministic on the current tree)",
    "the component part takes all reporting rows as the fitting rows (the point-prediction and bootstrap callers); the interval callers' training-row matrices are observed in the e2e part (finding F20, fixed)",
    "e2e: requests whose regression would have at least as many columns as fitting rows (e.g. a county fixed effect on county-level units) are a configuration error outside the domain and are replaced by the classification effect",
]
FLOOR = {"quick": 200, "thorough": 400}

BNM = "baseline_normalized_margin"
DOC_EFFECTS = ["postal_code", "county_fips", "county_classification", "district"]
FREE_EFFECTS = ["region", "fe", "media"]
LEVEL_POOL = {
    "postal_code": ["AA", "BB", "CC", "DD"],
    "county_fips": ["101", "10", "1", "205", "2"],
    "county_classification": ["urban", "rural", "suburb", "exurb", "othertown"],
    "district": ["1", "10", "2", "100", "d9"],
    "*": ["a", "b", "ab", "c", "B"],
}
ABSENT_LEVELS = ["zz", "0"]
FEATURE_POOL = [BNM, "x1", "x2", BNM + "_sq", "z"]
NON_MODELLED = ["non-modeled: blocklisted", "non-modeled: zero baseline", "non-modeled: strange turnout factor"]
R_BIT, N_BIT, U_BIT = 1, 2, 4
MASKS = [1, 2, 4, 3, 7, 5, 6, 1, 2, 7]


def parts(tier):
    if tier == "quick":
        return [{"name": "component", "n": 30000}, {"name": "e2e", "n": 160}]
    return [{"name": "component", "n": 400000}, {"name": "e2e", "n": 2000}]


# ---- component: generator ------------------------------------------------------------------------------------
def _plan_levels(draw, pool, sizes):
    """Levels for the rows of the three blocks, placed by construction: every level has a set of blocks it may
    occur in; the first rows of a block take each allowed level once, the rest draw freely among the allowed."""
    n_lv = draw(st.integers(1, len(pool)))
    start = draw(st.integers(0, len(pool) - 1))
    lv = [pool[(start + i) % len(pool)] for i in range(n_lv)]
    masks = [draw(st.sampled_from(MASKS)) for _ in lv]
    out = []
    for b, size in zip((R_BIT, N_BIT, U_BIT), sizes):
        if size == 0:
            continue
        allowed = [i for i in range(n_lv) if masks[i] & b]
        if not allowed:
            j = draw(st.integers(0, n_lv - 1))
            masks[j] |= b
            allowed = [j]
        for r in range(size):
            if r < len(allowed):
                out.append(lv[allowed[r]])
            else:
                out.append(lv[allowed[draw(st.integers(0, len(allowed) - 1))]])
    return out


@st.composite
def component_case(draw):
    n_r = draw(st.integers(1, 8))
    n_n = draw(st.sampled_from([0, 1, 2, 3, 4, 5, 6]))
    n_u = draw(st.sampled_from([0, 0, 1, 2, 3]))
    sizes = (n_r, n_n, n_u)
    n = n_r + n_n + n_u
    noise_seed = draw(st.integers(0, 2**31 - 1))
    rng = np.random.default_rng(noise_seed)

    states = _plan_levels(draw, LEVEL_POOL["postal_code"], sizes)
    cats = ["expected"] * (n_r + n_n)
    for _ in range(n_u):
        cats.append("unexpected" if draw(st.booleans()) else draw(st.sampled_from(NON_MODELLED)))

    n_eff = draw(st.sampled_from([0, 1, 1, 1, 2, 2, 3]))
    free = draw(st.sampled_from(FREE_EFFECTS))
    names_all = DOC_EFFECTS + [free]
    names = draw(st.lists(st.sampled_from(names_all), min_size=n_eff, max_size=n_eff, unique=True))
    center = draw(st.booleans())
    levels = {}
    for name in names:
        if name == "postal_code":
            levels[name] = list(states)
            continue
        col = _plan_levels(draw, LEVEL_POOL.get(name, LEVEL_POOL["*"]), sizes)
        # units the feed brought without a baseline row have no classification / free covariate at all
        if name in ("county_classification", free):
            for i in range(n_r + n_n, n):
                if cats[i] == "unexpected" and draw(st.integers(0, 2)) == 0:
                    col[i] = None
        levels[name] = col

    as_list = n_eff > 0 and draw(st.integers(0, 3)) == 0
    if as_list:
        fixed_effects = list(names)
    else:
        fixed_effects = {}
        for name in names:
            kind = draw(st.sampled_from(["all", "all_list", "subset", "subset", "subset"]))
            if kind == "all":
                fixed_effects[name] = "all"
            elif kind == "all_list":
                fixed_effects[name] = ["all"]
            else:
                present = sorted({v for v in levels[name] if v is not None})
                sel = [v for v in present if draw(st.booleans())]
                extra = draw(st.sampled_from([[], [], [ABSENT_LEVELS[0]], ABSENT_LEVELS]))
                fixed_effects[name] = sel + extra

    n_feat = draw(st.sampled_from([0, 1, 2, 2, 3]))
    features = draw(st.lists(st.sampled_from(FEATURE_POOL), min_size=n_feat, max_size=n_feat, unique=True))
    x = {}
    for f in features:
        style = draw(st.sampled_from(["normal", "normal", "ints", "const"]))
        if style == "normal":
            vals = [round(float(v), 4) for v in rng.normal(0.3, 1.0, size=n)]
        elif style == "ints":
            vals = [float(v) for v in rng.integers(0, 3, size=n)]
        else:
            vals = [float(draw(st.sampled_from([0.0, 1.0, -2.5])))] * n
        if not center:
            for i in range(n_r + n_n, n):
                if cats[i] == "unexpected" and draw(st.booleans()):
                    vals[i] = None
        x[f] = vals

    add_intercept = True if n_eff > 0 else draw(st.sampled_from([True, True, False]))
    sep = []
    if draw(st.integers(0, 9)) < 4:
        sep = draw(st.lists(st.sampled_from(LEVEL_POOL["postal_code"] + ["ZZ"]), min_size=1, max_size=3, unique=True))
    scale = False
    if not sep and features and draw(st.integers(0, 9)) == 0:
        scale = all(len({v for v in x[f] if v is not None}) >= 2 and None not in x[f] for f in features)

    return {
        "kind": "component",
        "n": [n_r, n_n, n_u],
        "state": states,
        "cat": cats,
        "fixed_effects": fixed_effects,
        "levels": levels,
        "features": features,
        "x": x,
        "add_intercept": add_intercept,
        "center": center,
        "scale": scale,
        "sep_states": sep,
    }


COMPONENT = component_case()


# ---- component: frame, reference, oracle -------------------------------------------------------------------------
def effects_of(case):
    fe = case["fixed_effects"]
    if isinstance(fe, list):
        return [(name, None) for name in fe]
    return list(fe.items())


def selects_all(param):
    return param is None or param == "all" or "all" in param


def pooled_levels(case):
    """effect -> per-row level after pooling unselected levels into 'other' (None: the row has no level)."""
    out = {}
    for name, param in effects_of(case):
        col = case["levels"][name]
        if selects_all(param):
            out[name] = list(col)
        else:
            out[name] = [None if v is None else (v if v in param else "other") for v in col]
    return out


def component_frame(case):
    n_r, n_n, n_u = case["n"]
    n = n_r + n_n + n_u
    data = {
        "postal_code": list(case["state"]),
        "geographic_unit_fips": [f"u{i}" for i in range(n)],
        "reporting": np.array([1] * n_r + [0] * (n_n + n_u), dtype="int64"),
        "unit_category": list(case["cat"]),
        "results_turnout": np.arange(n, dtype=float),
        "baseline_weights": np.arange(n, dtype=float) + 1.0,
    }
    for name, _ in effects_of(case):
        if name != "postal_code":
            data[name] = [np.nan if v is None else v for v in case["levels"][name]]
    for f in case["features"]:
        data[f] = np.array([np.nan if v is None else v for v in case["x"][f]], dtype=float)
    # the callers concatenate per-block frames, so the index restarts in every block
    idx = list(range(n_r)) + list(range(n_n)) + list(range(n_u))
    return pd.DataFrame(data, index=idx)


def drive_component(case, df):
    from elexmodel.handlers.data.Featurizer import Featurizer

    n_r = case["n"][0]
    fz = Featurizer(list(case["features"]), copy.deepcopy(case["fixed_effects"]), states_for_separate_model=list(case["sep_states"]))
    x_all = fz.prepare_data(
        df, center_features=case["center"], scale_features=case.get("scale", False), add_intercept=case["add_intercept"]
    )
    fit = fz.filter_to_active_features(x_all[:n_r])
    hold = fz.generate_holdout_data(x_all[n_r:])
    return fit, hold


def _near(a, b, tol=1e-9):
    """elementwise |a-b| <= tol*max(1,|b|), NaN equals NaN"""
    a = np.asarray(a, dtype=float)
    b = np.asarray(b, dtype=float)
    both_nan = np.isnan(a) & np.isnan(b)
    with np.errstate(invalid="ignore"):
        ok = np.abs(a - b) <= tol * np.maximum(1.0, np.abs(b))
    return ok | both_nan


def unseen_profile(case):
    """per effect: (|fitted levels|, number of levels seen only outside the fitting rows, blocks where they occur)"""
    n_r, n_n, n_u = case["n"]
    prof = []
    for name, col in pooled_levels(case).items():
        fitted = set(col[:n_r])
        un_n = {v for v in col[n_r : n_r + n_n] if v is not None and v not in fitted}
        un_u = {v for v in col[n_r + n_n :] if v is not None and v not in fitted}
        where = ("N" if un_n else "") + ("U" if un_u else "")
        prof.append((len(fitted), len(un_n | un_u), where))
    return prof


def check_component(case, ctx):
    ctx.evaluated()
    effects = effects_of(case)
    features = list(case["features"])
    viol = lambda kind, detail: ctx.violation(kind, detail, case, sig=kind)  # noqa: E731

    ctx.label(f"effects:{len(effects)}")
    ctx.label("fixed_effects_as:" + ("list" if isinstance(case["fixed_effects"], list) else "dict"))
    ctx.label(f"intercept:{case['add_intercept']} center:{case['center']}")
    if case["sep_states"]:
        ctx.label("separate_states")
    if case.get("scale"):
        ctx.label("scale_features")
    for _, param in effects:
        ctx.label("param:" + ("all" if selects_all(param) else ("none_selected" if not param else "selected_levels")))

    df = component_frame(case)  # a failure here is a harness error
    try:
        fit, hold = drive_component(case, df)
    except Exception as e:
        ctx.label("outcome:exception")
        ctx.violation("exception", f"{type(e).__name__}: {e}", case, sig=exc_signature(e))
        return

    bad = compare_with_reference(case, fit, hold)
    for kind, detail in bad:
        viol(kind, detail)

    prof = unseen_profile(case)
    if any(p[1] > 0 for p in prof):
        ctx.label("nontrivial_component")
        for p in prof:
            if p[1] > 0:
                ctx.label("unseen_where:" + p[2])
        sample = {
            "part": "component",
            "n_reporting_nonreporting_unexpected": case["n"],
            "fixed_effects": case["fixed_effects"],
            "levels": case["levels"],
            "features": features,
            "sep_states": case["sep_states"],
            "center": case["center"],
            "fit_columns": list(map(str, fit.columns)),
        }
        ctx.nontrivial("c|" + str(sorted(prof)), sample)


def compare_with_reference(case, fit, hold):
    """Returns a list of (kind, detail); empty when the two matrices agree with the reference design."""
    n_r, n_n, n_u = case["n"]
    n = n_r + n_n + n_u
    out = []
    effects = effects_of(case)
    features = list(case["features"])
    cols = [str(c) for c in fit.columns]
    hcols = [str(c) for c in hold.columns]

    # -- same columns, same order ------------------------------------------------------------------------------
    if cols != hcols:
        out.append(("columns_differ", f"fit {cols} holdout {hcols}"))
        return out
    if len(set(cols)) != len(cols):
        out.append(("duplicate_columns", f"{cols}"))
        return out
    if fit.shape[0] != n_r or hold.shape[0] != n - n_r:
        out.append(("row_count", f"fit {fit.shape} holdout {hold.shape} expected {n_r}/{n - n_r} rows"))
        return out
    # -- intercept first, baseline margin terms next ------------------------------------------------------------
    if case["add_intercept"]:
        if not cols or cols[0] != "intercept":
            out.append(("intercept_not_first", f"{cols}"))
            return out
    elif "intercept" in cols:
        out.append(("intercept_unrequested", f"{cols}"))
        return out
    s = 1 if case["add_intercept"] else 0
    pos = [i for i, c in enumerate(cols) if c.startswith(BNM)]
    if pos != list(range(s, s + len(pos))):
        out.append(("baseline_margin_not_next", f"{cols}"))

    try:
        F = fit.to_numpy(dtype=float)
        H = hold.to_numpy(dtype=float)
    except (TypeError, ValueError) as e:
        out.append(("matrix_not_numeric", f"{type(e).__name__}: {e}; dtypes {dict(fit.dtypes.astype(str))}"))
        return out
    A = np.vstack([F, H])
    at = {c: i for i, c in enumerate(cols)}
    state = case["state"]

    # -- continuous features and per-state copies --------------------------------------------------------------
    rep_states = set(state[:n_r])
    active_sep = [s_ for s_ in case["sep_states"] if s_ in rep_states]
    expected_plain = ["intercept"] if case["add_intercept"] else []
    expected_plain += features + [f"{f}_{s_}" for s_ in active_sep for f in features]
    missing = [c for c in expected_plain if c not in at]
    if missing:
        out.append(("column_missing", f"{missing} not in {cols}"))
        return out
    if case["add_intercept"]:
        rows = [i for i in range(n) if state[i] not in case["sep_states"]]
        if rows and not (A[rows, at["intercept"]] == 1.0).all():
            out.append(("intercept_value", f"intercept is {A[:, at['intercept']].tolist()}"))
    for f in features:
        raw = np.array([np.nan if v is None else v for v in case["x"][f]], dtype=float)
        base = np.where(np.isin(state, active_sep), 0.0, raw) if active_sep else raw
        got = A[:, at[f]]
        if case["center"]:
            m = float(np.nanmean(got)) if not np.isnan(got).all() else 0.0
            if not case.get("scale") and abs(m) > 1e-9 * max(1.0, float(np.nanmax(np.abs(base)))):
                out.append(("not_centred_over_all_units", f"{f}: mean over all {n} rows is {m!r}"))
            elif case.get("scale") and abs(m) > 1e-9 * max(1.0, float(np.nanmax(np.abs(got)))):
                out.append(("not_centred_over_all_units", f"{f} (scaled): mean over all {n} rows is {m!r}"))
            want = base - np.nanmean(base)
        else:
            want = base
        if not case.get("scale") and not _near(got, want).all():
            out.append(("feature_values", f"{f}: got {got.tolist()} reference {want.tolist()}"))
        for s_ in active_sep:
            if case["center"] or case.get("scale"):
                continue
            wantc = np.where(np.array(state) == s_, raw, 0.0)
            gotc = A[:, at[f"{f}_{s_}"]]
            if not _near(gotc, wantc).all():
                out.append(("state_copy_values", f"{f}_{s_}: got {gotc.tolist()} reference {wantc.tolist()}"))

    # -- fixed effects -------------------------------------------------------------------------------------------
    pooled = pooled_levels(case)
    claimed = set(expected_plain)
    for name, _ in effects:
        col = pooled[name]
        fitted = sorted(set(col[:n_r]))
        cand = {f"{name}_{lv}": lv for lv in fitted}
        mine = [c for c in cols if c in cand]
        claimed.update(mine)
        k = len(mine)
        if k != len(fitted) - 1:
            out.append(
                ("absorbed_level_count", f"{name}: fitted levels {fitted}, columns {mine}: {len(fitted) - k} levels without a column, expected exactly 1")
            )
            continue
        for c in mine:
            want = np.array([1.0 if v == cand[c] else 0.0 for v in col[:n_r]])
            got = F[:, at[c]]
            if got.min() == got.max():
                out.append(("fitted_dummy_constant", f"{c} is constant {got[0]} on the {n_r} fitting rows"))
            elif not (got == want).all():
                out.append(("fitted_indicator", f"{c}: got {got.tolist()} levels {col[:n_r]}"))
        idx = [at[c] for c in mine]
        for i in range(n_r, n):
            v = col[i]
            if v is None:
                continue
            got = H[i - n_r, idx]
            if v in fitted:
                want = np.array([1.0 if cand[c] == v else 0.0 for c in mine])
                if not (got == want).all():
                    out.append(("holdout_seen_level", f"{name}: row {i} level {v!r} (seen in fitting) got {dict(zip(mine, got.tolist()))}"))
                    break
            else:
                share = 1.0 / (k + 1)
                if k and not (np.abs(got - share) <= 1e-12).all():
                    out.append(("holdout_unseen_share", f"{name}: row {i} level {v!r} (not seen in fitting) got {dict(zip(mine, got.tolist()))}, expected {share} on each of {k} columns"))
                    break
    unknown = [c for c in cols if c not in claimed]
    if unknown:
        out.append(("unexpected_column", f"{unknown} in {cols}: neither intercept, feature, per-state copy of a reporting state nor a fitted level"))
    return out


def component_shrink(case):
    n_r, n_n, n_u = case["n"]
    n = n_r + n_n + n_u

    def drop_row(i):
        c = copy.deepcopy(case)
        b = 0 if i < n_r else (1 if i < n_r + n_n else 2)
        c["n"][b] -= 1
        del c["state"][i]
        del c["cat"][i]
        for k in c["levels"]:
            del c["levels"][k][i]
        for k in c["x"]:
            del c["x"][k][i]
        return c

    for name, _ in effects_of(case):
        c = copy.deepcopy(case)
        if isinstance(c["fixed_effects"], list):
            c["fixed_effects"].remove(name)
        else:
            del c["fixed_effects"][name]
        del c["levels"][name]
        yield c
    for f in case["features"]:
        c = copy.deepcopy(case)
        c["features"].remove(f)
        del c["x"][f]
        yield c
    if case["sep_states"]:
        for i in range(len(case["sep_states"])):
            c = copy.deepcopy(case)
            del c["sep_states"][i]
            yield c
    for i in reversed(range(n)):
        if i < n_r and n_r == 1:
            continue
        yield drop_row(i)
    if isinstance(case["fixed_effects"], dict):
        for name, param in case["fixed_effects"].items():
            if not selects_all(param):
                c = copy.deepcopy(case)
                c["fixed_effects"][name] = ["all"]
                yield c
    if case["center"]:
        c = copy.deepcopy(case)
        c["center"] = False
        yield c


# ---- e2e: relabelling invariance -----------------------------------------------------------------------------------
FE_CHOICES = [
    {"county_classification": ["all"]},
    ["county_classification"],
    {"county_classification": [gen.CLASSES[0]]},
    {"county_classification": [gen.CLASSES[0], gen.CLASSES[1]]},
    {"county_fips": ["all"]},
    {"postal_code": ["all"], "county_classification": ["all"]},
    {"postal_code": ["all"]},
]


def nonreporting_positions(case):
    """positions (in case['units']) of the modelled nonreporting units"""
    recs = ref.categorise(case)
    ids = {r["id"] for r in recs if r["baseline"] and r["cat"] == ref.EXPECTED and not r["reporting"]}
    return [i for i, u in enumerate(case["units"]) if u["id"] in ids]


@st.composite
def e2e_case(draw):
    case = draw(
        gen.election_case(
            estimators=("nonparametric", "bootstrap"),
            offices=("G", "G", "H"),
            max_counties=3,
            max_other=12,
            min_nonrep=3,
            slack=(0, 10),
            max_alphas=1,
            outliers=(False,),
            Bs=(10,),
            allow_state_blocklist=False,
        )
    )
    req = case["req"]
    if not req["fe"]:
        n_ok = len(FE_CHOICES) if len(case["states"]) > 1 else len(FE_CHOICES) - 2
        req["fe"] = copy.deepcopy(FE_CHOICES[draw(st.integers(0, n_ok - 1))])
    if "unit" not in req["aggregates"]:
        req["aggregates"] = list(req["aggregates"]) + ["unit"]
    # domain: the regression must have fewer columns than fitting rows (a saturated request -- e.g. a county
    # fixed effect on county-level units -- is a configuration error: the OLS solver cannot even form its normal
    # equations); fall back to the classification effect in that case
    recs0 = ref.categorise(case)
    fit_rows = [r for r in recs0 if r["cat"] == ref.EXPECTED and r["reporting"]]
    fe0 = req["fe"]
    names0 = list(fe0) if isinstance(fe0, list) else list(fe0.keys())
    n_cols = 1 + len(req["features"]) + sum(max(0, len({r[ref.COL_OF_KEY[nm]] for r in fit_rows}) - 1) for nm in names0 if nm in ref.COL_OF_KEY)
    if n_cols + 2 > len(fit_rows):
        req["fe"] = {"county_classification": ["all"]}
    pos = nonreporting_positions(case)
    order = list(range(len(case["units"])))
    if len(pos) >= 2:
        perm = list(draw(st.permutations(pos)))
        if perm == pos:
            perm = pos[1:] + pos[:1]
        for p, q in zip(pos, perm):
            order[p] = q
    case["kind"] = "e2e"
    case["order"] = order
    return case


E2E = e2e_case()


def compared_columns(pi, table):
    if pi == "bootstrap":
        pref = ("pred_",)
    else:
        pref = ("pred_", "lower_", "upper_")
    return [c for c in table.columns if c.startswith(pref)]


def check_bootstrap_matrices(base, seen, case, ctx):
    """The statement's clauses on the matrices the bootstrap model really used: same columns for fitting and for
    prediction, intercept first, no constant dummy on the fitting rows, a seen level gets its indicator (the absorbed
    one all zeros), an unseen level 1/(k+1) on each of the k fitted levels of its effect."""
    cols, xtr, xte = seen["columns"], seen["x_train"], seen["x_test"]
    viol = lambda kind, detail: ctx.violation(kind, detail, case, sig=kind + ":bootstrap")  # noqa: E731
    if xtr.shape != (len(seen["rep_ids"]), len(cols)) or xte.shape != (len(seen["non_ids"]), len(cols)):
        viol("matrices_not_aligned", f"fit matrix {xtr.shape}, prediction matrix {xte.shape}, {len(cols)} active features, {len(seen['rep_ids'])} / {len(seen['non_ids'])} units")
        return False
    if not cols or cols[0] != "intercept" or not (xtr[:, 0] == 1).all() or not (xte[:, 0] == 1).all():
        viol("intercept_not_first", f"columns {cols[:3]}")
        return False
    recs = {r["id"]: r for r in ref.categorise(base)}
    fe = base["req"]["fe"]
    names = list(fe) if isinstance(fe, list) else list(fe.keys())
    n_unseen = 0
    for name in names:
        key = ref.COL_OF_KEY.get(name)
        if key is None:
            continue
        param = None if isinstance(fe, list) else fe[name]
        pool = (lambda v: v) if selects_all(param) else (lambda v, p=param: v if v in p else "other")  # noqa: E731
        idx = [i for i, c in enumerate(cols) if c.startswith(name + "_")]
        fitted = {cols[i][len(name) + 1:]: i for i in idx}
        for i in idx:
            if len(np.unique(xtr[:, i])) <= 1:
                viol("constant_dummy_on_fitting_rows", f"bootstrap fit matrix: column {cols[i]} is constant on the {len(xtr)} fitting rows")
                return False
        seen_levels = {str(pool(recs[u][key])) for u in seen["rep_ids"] if u in recs}
        if len(seen_levels - set(fitted)) != 1:
            viol("absorbed_levels", f"effect {name}: levels on the fitting rows {sorted(seen_levels)}, fitted dummies {sorted(fitted)} (exactly one observed level must be absorbed by the intercept)")
            return False
        k = len(idx)
        for row, u in enumerate(seen["non_ids"]):
            if u not in recs:
                continue
            lv = str(pool(recs[u][key]))
            got = xte[row, idx]
            if lv in fitted:
                want = np.array([1.0 if i == fitted[lv] else 0.0 for i in idx])
            elif lv in seen_levels:
                want = np.zeros(k)
            else:
                want = np.full(k, 1.0 / (k + 1))
                n_unseen += 1
            if not np.allclose(got, want, rtol=0, atol=1e-12):
                viol("holdout_level_encoding", f"bootstrap prediction matrix, unit {u}, effect {name}, level {lv!r} ({'fitted' if lv in fitted else 'absorbed' if lv in seen_levels else 'not seen on the fitting rows'}): columns {[cols[i] for i in idx]} = {got.tolist()}, expected {want.tolist()}")
                return False
    ctx.label("e2e_bootstrap_matrices_observed")
    if n_unseen:
        ctx.label("e2e_bootstrap_unseen_level_rows", n_unseen)
    return True


def check_e2e(case, ctx):
    ctx.evaluated()
    req = case["req"]
    pi = req["pi"]
    ctx.label("e2e_pi:" + pi)
    order = case["order"]
    base = {k: v for k, v in case.items() if k not in ("kind", "order")}
    if sorted(order) != list(range(len(base["units"]))):
        raise AssertionError("harness: order is not a permutation of the units")
    pos = nonreporting_positions(base)
    moved = [i for i, j in enumerate(order) if i != j]
    if any(i not in pos for i in moved):
        raise AssertionError("harness: the permutation moves a unit that is not a modelled nonreporting unit")
    perm = copy.deepcopy(base)
    perm["units"] = [base["units"][j] for j in order]

    fits = []
    if pi == "nonparametric":
        # observe the matrices the conformal models are actually fitted on (point fit: all reporting rows;
        # interval fits: the training rows of the calibration split)
        import elexmodel.models.ConformalElectionModel as CEM

        fe_names = list(req["fe"]) if isinstance(req["fe"], list) else list(req["fe"].keys())
        orig_fit = CEM.ConformalElectionModel.fit_model

        def recording_fit(self, model, df_X, df_y, tau, weights, normalize_weights):
            const = [c for c in df_X.columns if c.startswith(tuple(n + "_" for n in fe_names)) and df_X[c].nunique() <= 1]
            fits.append({"tau": float(tau), "rows": len(df_X), "columns": list(df_X.columns), "constant_dummies": const})
            return orig_fit(self, model, df_X, df_y, tau, weights, normalize_weights)

        CEM.ConformalElectionModel.fit_model = recording_fit
        try:
            r1 = run_case(base, keep_client=False)
        finally:
            CEM.ConformalElectionModel.fit_model = orig_fit
    else:
        # observe the matrices the bootstrap model fits on and predicts from (they reach _estimate_strata_dist as
        # plain arrays; the column names are the featurizer's active features, the rows the frames' unit ids)
        import elexmodel.models.BootstrapElectionModel as BEM

        seen = {}
        orig_cbe = BEM.BootstrapElectionModel.compute_bootstrap_errors
        orig_esd = BEM.BootstrapElectionModel._estimate_strata_dist

        def rec_cbe(self, reporting_units, nonreporting_units, unexpected_units):
            seen.setdefault("rep_ids", list(reporting_units["geographic_unit_fips"]))
            seen.setdefault("non_ids", list(nonreporting_units["geographic_unit_fips"]))
            try:
                return orig_cbe(self, reporting_units, nonreporting_units, unexpected_units)
            finally:
                seen.setdefault("columns", list(self.featurizer.active_features))

        def rec_esd(self, x_train, x_train_strata, x_test, x_test_strata, *a, **k):
            seen.setdefault("x_train", np.array(x_train, dtype=float))
            seen.setdefault("x_test", np.array(x_test, dtype=float))
            return orig_esd(self, x_train, x_train_strata, x_test, x_test_strata, *a, **k)

        BEM.BootstrapElectionModel.compute_bootstrap_errors = rec_cbe
        BEM.BootstrapElectionModel._estimate_strata_dist = rec_esd
        try:
            r1 = run_case(base, keep_client=False)
        finally:
            BEM.BootstrapElectionModel.compute_bootstrap_errors = orig_cbe
            BEM.BootstrapElectionModel._estimate_strata_dist = orig_esd
        if r1.ok and {"x_train", "x_test", "columns", "rep_ids", "non_ids"} <= set(seen):
            if not check_bootstrap_matrices(base, seen, case, ctx):
                return
    for f in fits:
        if f["constant_dummies"]:
            ctx.violation(
                "constant_dummy_on_fitting_rows",
                f"fit at tau={f['tau']} on {f['rows']} rows: fitted dummy columns {f['constant_dummies']} are constant on the fitting rows",
                case,
                sig="constant_dummy:" + ("median" if f["tau"] == 0.5 else "interval"),
            )
            break
    if fits:
        ctx.label("e2e_fit_matrices_observed", len(fits))
    if not r1.ok:
        if common.is_gate_error(r1.exc):
            ctx.label("e2e_outcome:too_few_units")
            return
        ctx.violation("exception", f"{type(r1.exc).__name__}: {r1.exc}", case, sig=exc_signature(r1.exc))
        return
    r2 = run_case(perm, keep_client=False)
    if not r2.ok:
        ctx.violation(
            "exception_after_relabelling", f"baseline order completed, permuted order: {type(r2.exc).__name__}: {r2.exc}", case, sig=exc_signature(r2.exc)
        )
        return
    ctx.label("e2e_outcome:completed")
    t1, t2 = r1.tables["unit_data"], r2.tables["unit_data"]
    keys = ["postal_code", "geographic_unit_fips"]
    sel = compared_columns(pi, t1)
    if not sel or sel != compared_columns(pi, t2):
        ctx.violation("relabelling_columns", f"unit table columns {list(t1.columns)} vs {list(t2.columns)}", case, sig="relabelling_columns")
        return
    a = canon(t1[keys + sel], keys)
    b = canon(t2[keys + sel], keys)
    same, why = frames_equal_bitwise(a, b)
    if not same:
        ctx.violation(
            "relabelling_changes_units",
            f"{pi}: moving {len(moved)} nonreporting units to other baseline rows changed unit_data: {why}",
            case,
            sig="relabelling_changes_units:" + pi,
        )
    # non-trivial: a fixed-effect level carried by nonreporting units only
    recs = ref.categorise(base)
    fe = req["fe"]
    names = list(fe) if isinstance(fe, list) else list(fe.keys())
    prof = []
    for name in names:
        key = ref.COL_OF_KEY.get(name)
        if key is None:
            continue
        param = None if isinstance(fe, list) else fe[name]
        pool = (lambda v: v) if selects_all(param) else (lambda v, p=param: v if v in p else "other")  # noqa: E731
        fitted = {pool(r[key]) for r in recs if r["cat"] == ref.EXPECTED and r["reporting"]}
        unseen = {pool(r[key]) for r in recs if r["cat"] == ref.EXPECTED and not r["reporting"] and r["baseline"]} - fitted
        prof.append((len(fitted), len(unseen), "N" if unseen else ""))
    if len(moved) >= 2:
        if any(p[1] for p in prof):
            ctx.label("e2e_unseen_level")
        ctx.nontrivial(
            f"e|{pi}|{sorted(prof)}|{len(moved)}",
            {"part": "e2e", "moved_units": len(moved)} | common.summarize_case(base, recs),
        )


def e2e_shrink(case):
    base = {k: v for k, v in case.items() if k not in ("kind", "order")}
    ids_in_order = [base["units"][j]["id"] for j in case["order"]]
    for c in common.generic_shrink_candidates(base):
        keep = {u["id"] for u in c["units"]}
        if len(keep) != len(c["units"]):
            continue
        index = {u["id"]: i for i, u in enumerate(c["units"])}
        order = [index[i] for i in ids_in_order if i in keep]
        # removing units can turn the order into one that moves reporting units: keep only sound candidates
        pos = set(nonreporting_positions(c))
        if any(i != j and i not in pos for i, j in enumerate(order)):
            continue
        if not c["req"]["fe"]:
            continue
        if "unit" not in c["req"]["aggregates"]:
            continue
        c["kind"] = "e2e"
        c["order"] = order
        yield c


# ---- module interface --------------------------------------------------------------------------------------------------
def run_part(name, seed, n, tier, ctx, si, sc):
    if name == "component":
        hyp_run(COMPONENT, lambda case: check_component(case, ctx), seed, n, tier)
    elif name == "e2e":
        hyp_run(E2E, lambda case: check_e2e(case, ctx), seed, n, tier)
    else:
        raise ValueError(name)


def replay(case, ctx):
    if case.get("kind") == "component":
        check_component(case, ctx)
    elif case.get("kind") == "e2e":
        check_e2e(case, ctx)
    else:
        raise ValueError("C16 replay: case has no kind")


def facts(case):
    if case.get("kind") == "e2e":
        return {"kind": "e2e", "pi": case["req"]["pi"], "office": case["office"]}
    return {"kind": "component", "n_effects": len(effects_of(case)), "center": case["center"], "add_intercept": case["add_intercept"]}


def shrink_candidates(case):
    if case.get("kind") == "component":
        yield from component_shrink(case)
    elif case.get("kind") == "e2e":
        yield from e2e_shrink(case)
