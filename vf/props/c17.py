"""C17 - margin histories interpolate within bounds; irregular histories are discarded.

Two parts:

  hist    generated multi-unit version histories -> VersionedDataHandler.compute_versioned_margin_estimate(data=df),
          every unit compared with a reference written from the statement in exact rational arithmetic.
  extrap  the downstream clause at model level: BootstrapElectionModel._extrapolate_unit_margin is called twice, with
          and without the irregular reporting counties; an irregular unit "can never contribute", so both calls
          must return the same prediction and the same spread.

The reference never imports the function under test.  A case is a plain JSON document holding the materialised
cumulative votes; `replay` re-evaluates it with the same oracle without Hypothesis.
"""
from __future__ import annotations

import copy
import math
import os
from bisect import bisect_right
from fractions import Fraction

import numpy as np
import pandas as pd
from hypothesis import strategies as st

from vf.runner import exc_signature, hyp_run

ID = "C17"
LEVEL = "exploration"
RULE = (
    "hist: Hypothesis-generated frames of 1-7 units x 1-12 versions (cumulative dem/gop/other from non-negative "
    "batches, repeated versions, zero-vote prefixes, all-zero histories, reallocation between other and the "
    "parties, exact integer ties of the re-scaled percent, recorded percent_expected_vote proportional / re-scaled "
    "after the fact / shuffled / constant, final percent in [0,100]; irregular ones by an injected downward "
    "turnout revision, a revision to zero, a party revised down while the other rises, a swap with no change in "
    "two-party votes, a batch larger than its votes; int64- and float64-typed vote columns; rows grouped or "
    "interleaved) through compute_versioned_margin_estimate, each unit compared with an exact-rational reference "
    "(classification, row set 0..floor(latest percent), interpolation value for every p>=1, before-first value, "
    "|est|<=1, correction identity, all-missing + named reason for irregular units). "
    "extrap: 2-5 reporting counties (>=1 irregular) + one non-reporting county through "
    "BootstrapElectionModel._extrapolate_unit_margin, with and without the irregular counties: identical output. "
    "Non-trivial unit: regular with >=3 distinct observed percents strictly inside (0, latest), or irregular with "
    ">=3 versions, positive final turnout and votes counted before the irregular step; extrap case: the regular "
    "counties alone give a finite prediction.  Distinct = (n versions, dtype, kind, index of first non-empty "
    "version, rows before the first observation?, min(#interior observed percents, 6))."
)
ASSUMPTIONS = [
    "input columns follow the repository's fixtures: results_weights = dem+gop, results_normalized_margin = (dem-gop)/(dem+gop) and 0 when there are no two-party votes; cumulative votes are non-negative integers (int64 or float64 columns), no missing cells, rows of a unit are in time order",
    "float comparison tolerance 1e-9 absolute on margins; when a re-scaled percent lies within 1e-9 of a whole percent p the reference accepts either neighbouring version as 'last observed', unless turnout ratio and percent are exactly representable in binary64 (then the tie is decided strictly: observed at p counts as observed)",
    "at p = 0 (convex weights 0/0) only finiteness, |est| <= 1 and the correction identity are asserted; with zero final turnout (re-scaling undefined) only p = 0 present, rows within 0..floor(latest), finiteness, bounds, identity and error_type 'none' are asserted",
    "nearest_observed_vote, the number of rows of a discarded unit and which of two applicable reasons is named are not asserted (the statement is silent)",
    "extrap: max_dist_to_observed and min_extrapolating_units are set so that only the missing-correction filter decides who contributes",
]
FLOOR = {"quick": 150, "thorough": 220}

NONMONO = "non-monotone percent expected vote"
BATCH = "batch_margin"
EPS = Fraction(1, 10**9)
TOL = 1e-9
VOTE_COLS = ["results_turnout", "results_dem", "results_gop", "results_weights", "results_margin"]


def parts(tier):
    if tier == "quick":
        return [{"name": "hist", "n": 5000}, {"name": "extrap", "n": 400}]
    return [{"name": "hist", "n": 75000}, {"name": "extrap", "n": 4000}]


# ---------------------------------------------------------------------------------------------------------------
# reference (exact rationals, from the statement)
# ---------------------------------------------------------------------------------------------------------------
def analyse(dgo):
    """turnout, normalised margins, batch margins (None = impossible), set of irregularity reasons."""
    K = len(dgo)
    T = [d + g + o for d, g, o in dgo]
    W = [d + g for d, g, o in dgo]
    M = [d - g for d, g, o in dgo]
    m = [Fraction(M[i], W[i]) if W[i] else Fraction(0) for i in range(K)]
    b = []
    reasons = set()
    first_bad = None
    for i in range(K - 1):
        bad = False
        if T[i + 1] < T[i]:
            reasons.add(NONMONO)
            bad = True
        dW = W[i + 1] - W[i]
        dM = M[i + 1] - M[i]
        if dW == 0:
            if dM != 0:
                reasons.add(BATCH)
                bad = True
                b.append(None)
            else:
                b.append(Fraction(0))
        else:
            q = Fraction(dM, dW)
            if abs(q) > 1:
                reasons.add(BATCH)
                bad = True
            b.append(q)
        if bad and first_bad is None:
            first_bad = i + 1
    b.append(Fraction(0))  # no batch after the last version; its weight is zero at p == latest percent
    return T, m, b, reasons, first_bad


def _exact_float(q):
    return Fraction(float(q)) == q


def reference_margins(T, m, b, pev_last):
    """For a regular history with positive final turnout: {p: [acceptable est_margin values]} for p = 1..floor(pev),
    plus bookkeeping (number of hard / soft ties, rows before the first observation)."""
    pevF = Fraction(pev_last)
    TL = T[-1]
    xs = [Fraction(t, TL) for t in T]
    vs = [x * pevF for x in xs]
    P = math.floor(pevF)
    out = {}
    info = {"hard_ties": 0, "soft_ties": 0, "before_first": 0}
    for p in range(1, P + 1):
        lo = bisect_right(vs, p - EPS) - 1
        hi = bisect_right(vs, p + EPS) - 1
        cands = [lo]
        if hi != lo:
            # distinct re-scaled percents inside the tie zone, ascending
            j = lo
            while j < hi:
                z = vs[j + 1]
                jl = bisect_right(vs, z) - 1
                if z == p and _exact_float(z) and _exact_float(xs[jl]):
                    cands = [jl]
                    info["hard_ties"] += 1
                else:
                    cands.append(jl)
                    info["soft_ties"] += 1
                j = jl
        vals = []
        for i in cands:
            if i < 0:
                vals.append(m[0])
                if len(cands) == 1:
                    info["before_first"] += 1
            else:
                vals.append(b[i] + (m[i] - b[i]) * vs[i] / p)
        out[p] = vals
    return out, vs, info


# ---------------------------------------------------------------------------------------------------------------
# materialisation
# ---------------------------------------------------------------------------------------------------------------
def build_frame(units, dtype, interleave, skip_last=False, with_time=False):
    rows = []
    for ui, u in enumerate(units):
        vers = u["dgo"][:-1] if skip_last else u["dgo"]
        for k, ((d, g, o), pev) in enumerate(zip(vers, u["pev"])):
            rows.append((k if interleave else 0, ui, k, u["id"], d, g, o, float(pev)))
    rows.sort(key=lambda r: (r[0], r[1], r[2]))
    df = pd.DataFrame(
        {
            "postal_code": ["AA"] * len(rows),
            "geographic_unit_fips": [r[3] for r in rows],
            "results_turnout": [r[4] + r[5] + r[6] for r in rows],
            "results_dem": [r[4] for r in rows],
            "results_gop": [r[5] for r in rows],
            "percent_expected_vote": np.array([r[7] for r in rows], dtype=float),
            "results_weights": [r[4] + r[5] for r in rows],
            "results_margin": [r[4] - r[5] for r in rows],
        }
    )
    np_dtype = np.int64 if dtype == "int" else np.float64
    for c in VOTE_COLS:
        df[c] = np.asarray(df[c], dtype=np_dtype) if len(rows) else pd.Series([], dtype=np_dtype)
    w = df["results_weights"].to_numpy(dtype=float)
    mg = df["results_margin"].to_numpy(dtype=float)
    df["results_normalized_margin"] = np.divide(mg, w, out=np.zeros(len(rows), dtype=float), where=w != 0)
    if with_time:
        base = pd.Timestamp("2024-11-05 20:00:00")
        df["last_modified"] = [base + pd.Timedelta(minutes=3 * r[2]) for r in rows]
    else:
        df["last_modified"] = [f"2024-11-05 21:{r[2]:02d}:00-05:00" for r in rows]
    return df


_HANDLER = None


def handler():
    global _HANDLER
    if _HANDLER is None:
        os.environ.setdefault("AWS_DEFAULT_REGION", "us-east-1")
        from elexmodel.handlers.data.VersionedData import VersionedDataHandler

        try:
            _HANDLER = VersionedDataHandler("2024-11-05_USA_G", "S", "county")
        except Exception:  # no offline construction possible: the method under test does not use what __init__ builds
            _HANDLER = object.__new__(VersionedDataHandler)
    return _HANDLER


# ---------------------------------------------------------------------------------------------------------------
# oracle: hist
# ---------------------------------------------------------------------------------------------------------------
def kind_of(reasons, T):
    if not reasons:
        return "regular" if T[-1] > 0 else "regular_zero_final"
    if reasons == {NONMONO}:
        return "nonmonotone"
    if reasons == {BATCH}:
        return "bad_batch"
    return "nonmonotone+bad_batch"


def check_unit(u, g, dtype, ctx, report):
    """`g` = output rows of this unit; `report(kind, sig, detail)` records a violation."""
    dgo = u["dgo"]
    n = len(dgo)
    pev_last = u["pev"][-1]
    T, m, b, reasons, first_bad = analyse(dgo)
    kind = kind_of(reasons, T)
    ctx.evaluated()
    ctx.label("kind:" + kind)
    ctx.label("intent:" + u.get("intent", "?"))
    ctx.label(f"versions:{n:02d}")
    tag = f"{u['id']} ({dtype}, {n} versions, {kind})"

    ps = g["percent_expected_vote"].to_numpy()
    est = g["est_margin"].to_numpy(dtype=float)
    cor = g["est_correction"].to_numpy(dtype=float)
    err = list(g["error_type"])
    if len(ps) == 0:
        report("unit_missing", "unit_missing", f"{tag}: no output rows")
        return

    first_pos = next((i for i, t in enumerate(T) if t > 0), n)

    if reasons:
        sub = "zero_final_turnout" if T[-1] == 0 else kind
        n_present = int(np.count_nonzero(~np.isnan(cor)))
        if set(err) == {"none"} or n_present or np.count_nonzero(~np.isnan(est)):
            report(
                "irregular_not_discarded",
                f"irregular_not_discarded:{sub}",
                f"{tag}: reasons {sorted(reasons)} turnout {T} but error_type {sorted(set(err))} and {n_present} "
                f"non-missing corrections, e.g. p={ps[~np.isnan(cor)][:3].tolist()} corr={cor[~np.isnan(cor)][:3].tolist()}",
            )
        elif len(set(err)) != 1 or err[0] not in reasons:
            report("irregular_mislabelled", f"irregular_mislabelled:{sub}", f"{tag}: reasons {sorted(reasons)} but error_type {sorted(set(err))}")
        ctx.label(f"irregular_rows:{len(ps)}")
        if n >= 3 and T[-1] > 0 and first_bad is not None and T[first_bad - 1] > 0:
            ctx.nontrivial(
                f"{n}|{dtype}|{kind}|{min(first_pos, 3)}|-|{min(first_bad, 6)}",
                {"part": "hist", "dtype": dtype, "kind": kind, "unit": u},
            )
        return

    # ---- regular ------------------------------------------------------------------------------------------
    if set(err) != {"none"} or np.isnan(est).any() or np.isnan(cor).any():
        report(
            "regular_discarded",
            "regular_discarded",
            f"{tag}: turnout {T} non-decreasing and all batch margins in [-1,1] but error_type {sorted(set(err))}, " f"{int(np.isnan(cor).sum())} missing corrections",
        )
        return
    if not (np.isfinite(est).all() and np.isfinite(cor).all()):
        report("not_finite", "not_finite", f"{tag}: non-finite est_margin / est_correction")
        return
    P = math.floor(Fraction(pev_last))
    plist = [int(x) for x in ps]
    if any(float(x) != int(x) for x in ps) or len(set(plist)) != len(plist):
        report("rows", "rows_duplicate", f"{tag}: percents not distinct whole numbers: {ps[:8].tolist()}")
        return
    if max(np.abs(est)) > 1 + TOL:
        i = int(np.argmax(np.abs(est)))
        report("bounds", "bounds", f"{tag}: est_margin {est[i]} at p={plist[i]} outside [-1,1]")
    m_last = float(m[-1])
    dev = np.abs(cor - (m_last - est))
    if dev.max() > TOL:
        i = int(np.argmax(dev))
        report("correction", "correction", f"{tag}: p={plist[i]} est_correction {cor[i]} != final margin {m_last} - est_margin {est[i]}")

    if T[-1] == 0:
        if 0 not in plist or min(plist) < 0 or max(plist) > P:
            report("rows", "rows_zero_final", f"{tag}: zero final turnout, latest percent {pev_last}: percents {sorted(plist)[:5]}..{max(plist)}")
        ctx.label("zero_final_rows:" + ("only_p0" if plist == [0] else "more"))
        return

    if sorted(plist) != list(range(P + 1)):
        missing = sorted(set(range(P + 1)) - set(plist))[:5]
        extra = sorted(set(plist) - set(range(P + 1)))[:5]
        report("rows", "rows", f"{tag}: latest percent {pev_last}: expected p=0..{P}, got {len(plist)} rows (missing {missing}, extra {extra}, max {max(plist)})")
        return
    expected, vs, info = reference_margins(T, m, b, pev_last)
    by_p = dict(zip(plist, est))
    worst = None
    for p, vals in expected.items():
        e = by_p[p]
        d = min(abs(e - float(v)) for v in vals)
        if d > TOL and (worst is None or d > worst[0]):
            lo = bisect_right(vs, p - EPS) - 1
            if any(abs(v - p) <= EPS for v in vs):
                where = "tie"
            else:
                where = "before_first" if lo < 0 else "interior"
            worst = (d, p, e, [float(v) for v in vals], where)
    if worst is not None:
        d, p, e, vals, where = worst
        report(
            "est_margin",
            f"est_margin:{where}",
            f"{tag}: p={p} est_margin {e} reference {vals} (|diff| {d:.3g}); re-scaled observed percents "
            f"{[round(float(v), 6) for v in vs]} margins {[round(float(x), 6) for x in m]} batch margins {[round(float(x), 6) for x in b]}",
        )
    for k in ("hard_ties", "soft_ties", "before_first"):
        if info[k]:
            ctx.label("units_with_" + k)
    interior = sorted({v for v in vs if 0 < v < Fraction(pev_last)})
    if len(set(vs)) < len(vs):
        ctx.label("units_with_repeated_percent")
    if len(interior) >= 3:
        ctx.nontrivial(
            f"{n}|{dtype}|regular|{min(first_pos, 3)}|{int(info['before_first'] > 0)}|{min(len(interior), 6)}",
            {"part": "hist", "dtype": dtype, "kind": kind, "unit": u},
        )


def check_hist(case, ctx):
    dtype = case["dtype"]
    units = case["units"]
    ctx.label("dtype:" + dtype)
    ctx.label("units_per_case:" + str(len(units)))
    seen = set()

    def report(kind, sig, detail):
        if (kind, sig) in seen:  # one record per root cause and case
            return
        seen.add((kind, sig))
        ctx.violation(kind, detail, case, sig=f"{sig}|{dtype}")

    df = build_frame(units, dtype, case.get("interleave", 0))
    try:
        res = handler().compute_versioned_margin_estimate(data=df)
    except Exception as e:  # inside the declared domain: a failed case
        ctx.evaluated(len(units))
        ctx.violation("exception", f"{type(e).__name__}: {e}", case, sig=exc_signature(e) + "|" + dtype)
        return
    groups = {uid: g for uid, g in res.groupby("geographic_unit_fips", sort=False)}
    extra = set(groups) - {u["id"] for u in units}
    if extra:
        report("unit_extra", "unit_extra", f"output has units not in the input: {sorted(extra)[:5]}")
    for u in units:
        g = groups.get(u["id"])
        if g is None:
            ctx.evaluated()
            report("unit_missing", "unit_missing", f"{u['id']}: no output rows")
            continue
        check_unit(u, g, dtype, ctx, report)


# ---------------------------------------------------------------------------------------------------------------
# oracle: extrap (downstream clause)
# ---------------------------------------------------------------------------------------------------------------
def _run_extrap(case, rep_units):
    from elexmodel.models.BootstrapElectionModel import BootstrapElectionModel

    dtype = case["dtype"]
    non = case["non"]
    h = handler()
    h.data = build_frame(rep_units + [non], dtype, 1, skip_last=True, with_time=True)
    cur = build_frame(
        [{"id": u["id"], "dgo": [u["dgo"][-1]], "pev": [u["pev"][-1]]} for u in rep_units + [non]], dtype, 0, with_time=True
    )
    cur["geographic_unit_type"] = "county"
    reporting = cur.iloc[: len(rep_units)].copy().reset_index(drop=True)
    nonreporting = cur.iloc[len(rep_units) :].copy().reset_index(drop=True)
    model = BootstrapElectionModel(
        {
            "features": ["baseline_normalized_margin"],
            "min_extrapolating_units": 1,
            "max_dist_to_observed": 1000,
            "extrapolate_threshold": case["threshold"],
            "extrapolate_std_method": case["std_method"],
        },
        versioned_data_handler=h,
    )
    pred, std = model._extrapolate_unit_margin(reporting, nonreporting)
    return np.asarray(pred, dtype=float).ravel(), np.asarray(std, dtype=float).ravel()


def _same(a, b):
    if a.shape != b.shape:
        return False
    na, nb = np.isnan(a), np.isnan(b)
    if (na != nb).any():
        return False
    return bool(np.all(np.abs(a[~na] - b[~nb]) <= 1e-12))


def check_extrap(case, ctx):
    ctx.evaluated()
    dtype = case["dtype"]
    ctx.label("extrap_dtype:" + dtype)
    rep = case["rep"]
    irregular = [u for u in rep if analyse(u["dgo"])[3]]
    regular = [u for u in rep if not analyse(u["dgo"])[3]]
    ctx.label(f"extrap_irregular:{len(irregular)}_regular:{len(regular)}")
    if not irregular:
        return
    # (i) the consumer's filter applied to the handler's output for exactly the frame the model would build
    #     (stored versions + the current rows): no row of an irregular county may survive `est_correction.notnull()`
    non = case["non"]
    try:
        est = handler().compute_versioned_margin_estimate(data=build_frame(rep + [non], dtype, 1, with_time=True))
    except Exception as e:
        ctx.violation("exception", f"extrap: {type(e).__name__}: {e}", case, sig=exc_signature(e) + "|" + dtype)
        return
    p_non = round(float(non["pev"][-1]))
    usable = est[est.est_correction.notnull()]
    bad_ids = sorted(set(usable.geographic_unit_fips) & {u["id"] for u in irregular})
    if bad_ids:
        at_p = sorted(set(usable[usable.percent_expected_vote == p_non].geographic_unit_fips) & set(bad_ids))
        zero_final = all(sum(u["dgo"][-1]) == 0 for u in irregular if u["id"] in bad_ids)
        ctx.violation(
            "irregular_passes_filter",
            f"irregular counties {bad_ids} have non-missing corrections (at the non-reporting county's percent {p_non}: {at_p})",
            case,
            sig=f"irregular_passes_filter:{'zero_final_turnout' if zero_final else 'other'}|{dtype}",
        )
    # (ii) the real consumer, with and without the irregular counties.  The control run contains no irregular
    #      unit: if it raises, the extrapolation step is unusable for reasons outside this property's clause; it
    #      is still recorded (exception policy) under its own signature.
    try:
        pb, sb = _run_extrap(case, regular)
    except Exception as e:
        ctx.label("extrap_real_call:control_raises")
        ctx.violation("exception", f"extrap control (regular counties only): {type(e).__name__}: {e}", case, sig=exc_signature(e) + "|extrap_control")
        return
    try:
        pa, sa = _run_extrap(case, rep)
    except Exception as e:
        ctx.violation("exception", f"extrap: {type(e).__name__}: {e}", case, sig=exc_signature(e) + "|" + dtype)
        return
    ctx.label("extrap_real_call:ok")
    finite = bool(np.isfinite(pb).all())
    ctx.label("extrap_regular_alone:" + ("finite" if finite else "nan"))
    if not (_same(pa, pb) and _same(sa, sb)):
        kinds = sorted({kind_of(analyse(u["dgo"])[3], [sum(v) for v in u["dgo"]]) for u in irregular})
        zero_final = any(sum(u["dgo"][-1]) == 0 for u in irregular)
        ctx.violation(
            "irregular_contributes",
            f"extrapolated prediction/spread with the irregular counties {[u['id'] for u in irregular]} ({kinds}) present: "
            f"{pa.tolist()} / {sa.tolist()}; without them: {pb.tolist()} / {sb.tolist()}",
            case,
            sig=f"irregular_contributes:{'zero_final_turnout' if zero_final else 'other'}|{dtype}",
        )
    if finite:
        ctx.nontrivial(
            f"extrap|{dtype}|{len(regular)}|{len(irregular)}|{case['std_method']}|{case['threshold']}",
            {"part": "extrap", "dtype": dtype, "non_pev": case["non"]["pev"][-1], "reporting": [{"id": u["id"], "versions": len(u["dgo"])} for u in rep]},
        )


# ---------------------------------------------------------------------------------------------------------------
# generators (by construction)
# ---------------------------------------------------------------------------------------------------------------
REGULAR_INTENTS = ["plain"] * 7 + ["tie"] * 4 + ["realloc"] * 2 + ["zero_final"]
IRREGULAR_INTENTS = ["down_turnout"] * 2 + ["down_party"] * 2 + ["swap", "over_batch", "over_batch", "to_zero"]
INJECTED = {"realloc", "down_turnout", "down_party", "swap", "over_batch", "to_zero"}
N_VERSIONS = st.sampled_from([1] + list(range(2, 13)) * 2)  # 1-12 versions, single-version histories kept rare
PEV_LAST = st.one_of(
    st.sampled_from([0, 0.4, 1, 2.5, 50, 66.46, 99, 99.99, 100, 100, 100]),
    st.integers(0, 100),
    st.integers(0, 10000).map(lambda k: k / 100),
)


def _cumulate(batches):
    out, d, g, o = [], 0, 0, 0
    for bd, bg, bo in batches:
        d, g, o = d + bd, g + bg, o + bo
        assert d >= 0 and g >= 0 and o >= 0, "generator produced negative cumulative votes"
        out.append([d, g, o])
    return out


def _draw_batch(draw, scale):
    shape = draw(st.integers(0, 9))
    amt = st.integers(1, scale)
    if shape <= 1:
        return [0, 0, 0]
    if shape == 2:
        return [draw(amt), 0, 0]
    if shape == 3:
        return [0, draw(amt), 0]
    if shape == 4:
        return [0, 0, draw(amt)]
    if shape == 5:
        a = draw(amt)
        return [a, a, 0]
    return [draw(st.integers(0, scale)), draw(st.integers(0, scale)), draw(st.integers(0, scale // 4 + 1))]


def _tie_history(draw):
    k = draw(st.integers(1, 6))
    base = 2**k
    mult = draw(st.sampled_from([1, 1, 3, 125]))
    pev_last = draw(st.sampled_from(list(range(base, 101, base))))
    n = draw(N_VERSIONS)
    cuts = sorted(draw(st.lists(st.integers(0, base), min_size=n - 1, max_size=n - 1))) + [base]
    batches, prev = [], 0
    for c in cuts:
        inc = c - prev
        prev = c
        dd = draw(st.integers(0, inc)) if inc else 0
        dg = draw(st.integers(0, inc - dd)) if inc - dd else 0
        batches.append([dd * mult, dg * mult, (inc - dd - dg) * mult])
    return _cumulate(batches), pev_last


def _batch_history(draw, intent):
    inject = intent in INJECTED
    n = max(draw(N_VERSIONS), 2 if inject else 1)
    scale = draw(st.sampled_from([2, 30, 1500, 250000]))
    zp = draw(st.sampled_from([0, 0, 0, 1, 2, 3]))
    zp = min(zp, n - 2 if inject else n - 1)
    batches = []
    for k in range(n):
        if k < zp:
            batches.append([0, 0, 0])
        elif k == zp and inject:
            batches.append([1 + draw(st.integers(0, scale)), 1 + draw(st.integers(0, scale)), 1 + draw(st.integers(0, scale // 4 + 1))])
        else:
            batches.append(_draw_batch(draw, scale))
    if not any(any(x) for x in batches):  # all-zero histories are the business of the 'zero_final' intent
        batches[-1] = [draw(st.integers(1, scale)), draw(st.integers(0, scale)), draw(st.integers(0, scale // 4 + 1))]
    if inject:
        j = n - 1 if intent == "to_zero" else draw(st.integers(zp + 1, n - 1))
        D, G, O = _cumulate(batches[:j])[-1]
        amt = st.integers(0, scale)
        if intent == "to_zero":
            nb = [-D, -G, -O]
        elif intent == "down_turnout":
            x, y, z = draw(st.integers(0, D)), draw(st.integers(0, G)), draw(st.integers(0, O))
            if x + y + z == 0:
                x = D
            nb = [-x, -y, -z]
        elif intent == "down_party":
            x, y = draw(st.integers(1, D)), draw(amt)
            nb = [-x, y, max(0, x - y) + draw(amt)]
        elif intent == "swap":
            x = draw(st.integers(1, G))
            nb = [x, -x, draw(amt)]
        elif intent == "over_batch":
            x, a = draw(st.integers(1, G)), draw(st.integers(1, max(1, scale)))
            nb = [a + x, -x, draw(amt)]
        else:  # realloc: regular by the statement (turnout non-decreasing, batch margin within [-1,1])
            if draw(st.booleans()):
                x = draw(st.integers(1, O))
                nb = [x, 0, -x]
            else:
                x, y = draw(st.integers(0, D)), draw(st.integers(0, G))
                nb = [-x, -y, x + y + draw(amt)]
        batches[j] = nb
    return _cumulate(batches)


@st.composite
def unit_history(draw, intents=None, min_pev=None):
    intent = draw(st.sampled_from(intents or (REGULAR_INTENTS + IRREGULAR_INTENTS)))
    if intent == "tie":
        dgo, pev_last = _tie_history(draw)
    elif intent == "zero_final":
        dgo = [[0, 0, 0] for _ in range(draw(N_VERSIONS))]
        pev_last = draw(st.sampled_from([0, 0, 0, 0.0, 37.5, 100]))
    else:
        dgo = _batch_history(draw, intent)
        pev_last = draw(PEV_LAST)
    if min_pev is not None:
        pev_last = max(pev_last, min_pev)
    if draw(st.booleans()):  # mirror the parties
        dgo = [[g, d, o] for d, g, o in dgo]
    # recorded percents of the earlier versions (only the last one is the unit's latest percent)
    T = [sum(v) for v in dgo]
    mode = draw(st.sampled_from(["prop", "prop", "rescaled", "shuffled", "const"]))
    f = draw(st.sampled_from([0.5, 1.3, 2.0])) if mode == "rescaled" else 1.0
    if mode == "const":
        rec = [pev_last for _ in T]
    else:
        rec = [round(min(100.0, (t / T[-1] if T[-1] else 0.0) * pev_last * f), 2) for t in T]
        if mode == "shuffled" and len(rec) > 2:
            rec = list(draw(st.permutations(rec)))
    rec[-1] = pev_last
    return {"intent": intent, "dgo": dgo, "pev": rec}


@st.composite
def hist_case(draw):
    dtype = draw(st.sampled_from(["int", "float"]))
    interleave = int(draw(st.booleans()))
    n_units = draw(st.integers(1, 7))
    ids = draw(st.lists(st.integers(1, 999), min_size=n_units, max_size=n_units, unique=True))
    units = []
    for i in ids:
        u = draw(unit_history())
        u["id"] = f"{10000 + i}"
        units.append(u)
    return {"part": "hist", "dtype": dtype, "interleave": interleave, "units": units}


@st.composite
def extrap_case(draw):
    dtype = draw(st.sampled_from(["int", "float"]))
    threshold = draw(st.sampled_from([0, 75, 75]))
    std_method = draw(st.sampled_from(["std", "max_min"]))
    n_rep = draw(st.integers(2, 5))
    n_irr = draw(st.integers(1, n_rep - 1))
    rep = []
    for i in range(n_rep):
        if i < n_irr:
            u = draw(unit_history(intents=IRREGULAR_INTENTS + ["down_turnout", "over_batch"]))
        else:
            u = draw(unit_history(intents=["plain", "plain", "tie", "realloc"], min_pev=draw(st.sampled_from([90, 100, 100]))))
        u["id"] = f"{20001 + i}"
        rep.append(u)
    order = draw(st.permutations(list(range(n_rep))))
    rep = [rep[i] for i in order]
    non = draw(unit_history(intents=["plain", "plain", "realloc"]))
    if len(non["dgo"]) < 2:  # the handler needs at least one stored version
        non["dgo"] = [[0, 0, 0]] + non["dgo"]
        non["pev"] = [0.0] + non["pev"]
    non["pev"][-1] = draw(st.one_of(st.sampled_from([0.3, 75, 80.5, 99.4]), st.integers(70, 99)))
    non["id"] = "20000"
    return {
        "part": "extrap",
        "dtype": dtype,
        "threshold": threshold,
        "std_method": std_method,
        "rep": rep,
        "non": non,
    }


HIST = hist_case()
EXTRAP = extrap_case()


# ---------------------------------------------------------------------------------------------------------------
# runner interface
# ---------------------------------------------------------------------------------------------------------------
def run_part(name, seed, n, tier, ctx, si, sc):
    handler()
    if name == "hist":
        hyp_run(HIST, lambda case: check_hist(case, ctx), seed, n, tier)
    else:
        hyp_run(EXTRAP, lambda case: check_extrap(case, ctx), seed, n, tier)


def replay(case, ctx):
    if case.get("part") == "extrap":
        check_extrap(case, ctx)
    else:
        check_hist(case, ctx)


def facts(case):
    out = {"part": case.get("part", "hist"), "dtype": case.get("dtype")}
    units = case.get("units") or case.get("rep") or []
    out["any_zero_final_turnout"] = any(sum(u["dgo"][-1]) == 0 for u in units)
    return out


def _drop_version(u, k):
    v = copy.deepcopy(u)
    del v["dgo"][k]
    del v["pev"][k]
    return v


def shrink_candidates(case):
    key = "units" if case.get("part", "hist") == "hist" else "rep"
    units = case[key]
    if len(units) > 1:
        for i in range(len(units)):
            c = copy.deepcopy(case)
            c[key] = [units[i]] if key == "units" else units[:i] + units[i + 1 :]
            yield c
    if case.get("interleave"):
        c = copy.deepcopy(case)
        c["interleave"] = 0
        yield c
    for i, u in enumerate(units):
        for k in range(len(u["dgo"]) - 1):
            c = copy.deepcopy(case)
            c[key][i] = _drop_version(u, k)
            yield c
