"""C02 - every aggregate equals the sum of its units; levels agree with each other."""
from __future__ import annotations

import numpy as np

from vf import gen, ref
from vf.drive import AGG_TABLE, level_keys
from vf.props import common
from vf.runner import hyp_run

ID = "C02"
LEVEL = "exploration"
RULE = (
    "Generated elections as in C01 (unit table always requested) run through the client. Oracle: each group's "
    "pred (and, nonparametric, every lower/upper) equals the sum over its attributable rows of the RETURNED unit "
    "table; county/district tables sum to the state rows; bootstrap: pred_turnout(g) = sum of unit pred_turnout, "
    "pred_margin(g)*pred_turnout(g) = sum of unit pred_margin, and each group's bounds equal a per-group python-loop "
    "reference aggregator over the draws the model retains (row alignment). Non-trivial: >=2 levels, a group with "
    "counted and predicted parts, and a group present through only one kind of unit (reporting / nonreporting / "
    "unexpected-or-non-modelled). Distinct = structure hash as C01."
)
ASSUMPTIONS = [
    "the bootstrap reference aggregator trusts the retained draw matrices (errors_B_1..4) as inputs: it checks aggregation and row alignment, not the draws",
    "gaussian interval row alignment is checked by the C15 reference, not here",
] + [
    "feed unit ids unique; feed postal codes are config states; documented unit id layout",
]
FLOOR = {"quick": 30, "thorough": 250}


def parts(tier):
    return [{"name": "e2e", "n": 800 if tier == "quick" else 10000}]


@gen.st.composite
def _strategy(draw):
    case = draw(gen.election_case(min_nonrep=2))
    if "unit" not in case["req"]["aggregates"]:
        case["req"]["aggregates"] = case["req"]["aggregates"] + ["unit"]
    return case


STRATEGY = _strategy()


def quantile_ranks(alpha, B):
    lower_alpha = (1 - alpha) / 2
    upper_alpha = 1 - lower_alpha
    return np.floor(lower_alpha * (B + 1)) / B, np.ceil(upper_alpha * (B - 1)) / B


def bootstrap_reference_bounds(case, run, recs, keys, table, alpha):
    """Per-group loop over the retained draws; returns dict key -> (lower, upper, pred_unadjusted)."""
    model = run.client.model
    rh = run.client.results_handler
    nonrep_ids = list(rh.nonreporting_units["geographic_unit_fips"])
    row_of = {u: i for i, u in enumerate(nonrep_ids)}
    E1, E2, E3, E4 = model.errors_B_1, model.errors_B_2, model.errors_B_3, model.errors_B_4
    wyz = np.asarray(model.weighted_yz_test_pred).reshape(-1)
    wz = np.asarray(model.weighted_z_test_pred).reshape(-1)
    B = E1.shape[1]
    lq, uq = quantile_ranks(alpha, B)
    out = {}
    groups = ref.ref_groups(recs, keys)
    for k, members in groups.items():
        yz_known = 0.0
        z_known = 0.0
        b1 = np.zeros(B)
        b2 = np.zeros(B)
        b3 = np.zeros(B)
        b4 = np.zeros(B)
        yz_pred = 0.0
        z_pred = 0.0
        for m in members:
            if m["cat"] == ref.EXPECTED and not m["reporting"]:
                i = row_of[m["id"]]
                b1 += E1[i]
                b2 += E2[i]
                b3 += E3[i]
                b4 += E4[i]
                yz_pred += wyz[i]
                z_pred += wz[i]
            else:
                yz_known += m["res"]["margin"]
                z_known += m["res"]["weights"]
        with np.errstate(all="ignore"):
            d1 = np.nan_to_num((yz_known + b1) / (np.float64(z_known) + b3))
            d2 = np.nan_to_num((yz_known + b2) / (np.float64(z_known) + b4))
            pred = float(np.nan_to_num(np.float64(yz_known + yz_pred) / np.float64(z_known + z_pred)))
        diff = d1 - d2
        out[k] = (diff, lq, uq, pred, z_known + z_pred)
    return out


def check_case(case, ctx):
    ctx.evaluated()
    rr = common.run_and_reference(case, ctx)
    if rr is None:
        return
    run, recs = rr
    req = case["req"]
    office = case["office"]
    tables = run.tables
    pi = req["pi"]
    viol = lambda kind, detail: ctx.violation(kind, detail, case, sig=kind)  # noqa: E731
    ut = tables["unit_data"]
    if len(ut) != len(recs) or set(ut["geographic_unit_fips"]) != {r["id"] for r in recs}:
        return  # C01's clause; nothing to sum reliably
    by_id = {r["id"]: r for r in recs}
    urow = {uid: i for i, uid in enumerate(ut["geographic_unit_fips"])}
    n_levels = 0
    mixed_group = False
    single_source_group = False
    for agg in req["aggregates"]:
        if agg == "unit":
            continue
        keys = level_keys(office, agg)
        name = AGG_TABLE[agg]
        t = tables[name]
        if any(k not in t.columns for k in keys):
            continue
        n_levels += 1
        groups = ref.ref_groups(recs, keys)
        got = [tuple(x) for x in t[keys].itertuples(index=False, name=None)]
        if sorted(map(str, got)) != sorted(map(str, groups)):
            # a unit attributed to another (or an invented) group: the groups it belongs to then do not hold "their
            # counted votes from ... attributable unexpected units"; the rows present on both sides are still summed
            only_t = sorted(map(str, set(got) - set(groups)))[:3]
            only_r = sorted(map(str, set(groups) - set(got)))[:3]
            viol("agg_group_set", f"{name}: groups only in the table {only_t}, only in the reference attribution {only_r}")
            if len(set(got)) != len(got):
                continue
        bref = None
        for e in req["estimands"]:
            cols = [f"pred_{e}"]
            if pi == "nonparametric":
                for a in req["alphas"]:
                    cols += [f"lower_{a}_{e}", f"upper_{a}_{e}"]
            for i, k in enumerate(got):
                if k not in groups:
                    continue
                members = groups[k]
                kinds = {("rep" if m["reporting"] else "non") if m["cat"] == ref.EXPECTED else "other" for m in members}
                if "non" in kinds and len(kinds) > 1:
                    mixed_group = True
                if len(kinds) == 1:
                    single_source_group = True
                idx = [urow[m["id"]] for m in members]
                if e != "margin":
                    for c in cols:
                        s = float(ut[c].iloc[idx].astype(float).sum())
                        v = float(t[c].iloc[i])
                        if v != s:
                            viol("agg_not_sum_of_units", f"{name} {k} {c}: table {v} sum of unit rows {s}")
                            break
                else:
                    pt = float(t["pred_turnout"].iloc[i])
                    s_t = float(ut["pred_turnout"].iloc[idx].astype(float).sum())
                    if not common.close(pt, s_t, rel=1e-9, abs_=1e-6):
                        viol("agg_turnout_not_sum", f"{name} {k}: pred_turnout {pt} sum of unit pred_turnout {s_t}")
                        break
                    called = k in _called_keys(case, keys)
                    s_m = float(ut["pred_margin"].iloc[idx].astype(float).sum())
                    pm = float(t["pred_margin"].iloc[i])
                    if not called and not common.close(pm * pt, s_m, rel=1e-9, abs_=1e-6):
                        viol("agg_margin_not_sum", f"{name} {k}: pred_margin*pred_turnout {pm * pt} sum of unit pred_margin {s_m}")
                        break
            if e == "margin":
                # row alignment of the interval columns: reference aggregator over the retained draws
                for a in req["alphas"]:
                    bref = bootstrap_reference_bounds(case, run, recs, keys, t, a)
                    for i, k in enumerate(got):
                        if k not in groups or k in _called_keys(case, keys) or k in _stopped_keys(case, keys):
                            continue
                        diff, lq, uq, pred_ref, _ = bref[k]
                        pm = float(t["pred_margin"].iloc[i])
                        lo_ref = min(pm - float(np.quantile(diff, uq)), pm - 0.001)
                        up_ref = max(pm - float(np.quantile(diff, lq)), pm + 0.001)
                        lo = float(t[f"lower_{a}_margin"].iloc[i])
                        up = float(t[f"upper_{a}_margin"].iloc[i])
                        if not (common.close(lo, lo_ref, rel=1e-7, abs_=1e-7) and common.close(up, up_ref, rel=1e-7, abs_=1e-7)):
                            viol(
                                "interval_on_wrong_row",
                                f"{name} {k} alpha={a}: table [{lo}, {up}] reference from this group's draws [{lo_ref}, {up_ref}]",
                            )
                            break
                        if not common.close(pm, pred_ref, rel=1e-7, abs_=1e-7):
                            viol("pred_margin_on_wrong_row", f"{name} {k}: pred_margin {pm} reference {pred_ref}")
                            break
    # levels agree with each other: finer tables sum to the state rows (vote counts)
    if pi != "bootstrap":
        top_keys = level_keys(office, "postal_code")
        if "state_data" in tables and all(k in tables["state_data"].columns for k in top_keys):
            top = tables["state_data"]
            for agg in ("county_fips", "district"):
                if agg in req["aggregates"] and AGG_TABLE[agg] in tables:
                    fine = tables[AGG_TABLE[agg]]
                    if any(k not in fine.columns for k in top_keys):
                        continue
                    for e in req["estimands"]:
                        cols = [f"pred_{e}", f"results_{e}"]
                        if pi == "nonparametric":
                            for a in req["alphas"]:
                                cols += [f"lower_{a}_{e}", f"upper_{a}_{e}"]
                        fs = fine.groupby(top_keys)[cols].sum()
                        for _, row in top.iterrows():
                            key = tuple(row[k] for k in top_keys)
                            key = key[0] if len(key) == 1 else key
                            for c in cols:
                                s = float(fs.loc[key, c]) if key in fs.index else 0.0
                                if float(row[c]) != s:
                                    viol("levels_disagree", f"{AGG_TABLE[agg]} rows of {key} sum to {s} in {c}, state table has {row[c]}")
                                    break
    # gaussian: interval columns sit on the row of the group they were computed for -- recompute the intervals of
    # the level computed last (the model still holds its per-group statistics) with the C15 reference
    if pi == "gaussian":
        from vf.props import c15

        last = [a for a in req["aggregates"] if a != "unit"]
        if last and len(level_keys(office, last[-1])) <= 3 and AGG_TABLE[last[-1]] in tables:
            probs = []
            c15.reference_check(case, run, recs, last[-1], req["estimands"][-1], req["alphas"][-1], lambda kind, detail: probs.append((kind, detail)))
            for kind, detail in probs[:1]:
                viol("gaussian_interval_row:" + kind, detail)
            ctx.label("gaussian_reference_checked")
    ctx.label("levels:" + str(n_levels))
    if n_levels >= 2 and mixed_group and single_source_group:
        ctx.nontrivial(common.structure_signature(case, recs), common.summarize_case(case, recs))


def _called_keys(case, keys):
    req = case["req"]
    names = set(req.get("lhs", [])) | set(req.get("rhs", []))
    return {tuple(n.split("_")) for n in names} if names else set()


def _stopped_keys(case, keys):
    names = set(case["req"].get("stop", []))
    return {tuple(n.split("_")) for n in names} if names else set()


def run_part(name, seed, n, tier, ctx, si, sc):
    hyp_run(STRATEGY, lambda case: check_case(case, ctx), seed, n, tier)


def replay(case, ctx):
    check_case(case, ctx)


def facts(case):
    req = case["req"]
    return {"pi": req["pi"], "office": case["office"], "hu": req["hu"]}


shrink_candidates = common.generic_shrink_candidates
