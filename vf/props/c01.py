"""C01 - counted votes are conserved and every unit is reported exactly once."""
from __future__ import annotations

import numpy as np

from vf import gen, ref
from vf.drive import AGG_TABLE, level_keys
from vf.props import common
from vf.runner import hyp_run

ID = "C01"
LEVEL = "exploration"
RULE = (
    "Hypothesis-generated elections (1-3 states, counties, classifications, optional districts; feed with units "
    "at/above/below/exactly on the threshold, absent units, zero-baseline, unit- and state-blocklisted, strange "
    "turnout factor, unexpected rows in known/unknown counties and districts; both unreporting policies; any "
    "ordered aggregate list; three estimators; county- and precinct-level unit ids; for the conformal estimators also "
    "feed rows whose count for one estimand is missing) run through ModelClient.get_estimates and compared with a "
    "reference categorisation + aggregation computed from the case. Non-trivial: run completed, units in >=3 of "
    "{reporting, nonreporting, unexpected, non-modelled, absent} and >=2 requested levels; distinct = hash of "
    "(estimator, office, aggregates, policy, threshold, per-county category multiset)."
)
ASSUMPTIONS = [
    "feed unit ids unique; feed postal codes are config states; votes non-negative integers; unit ids follow the documented <county>_<precinct> / <district>_<county>_<precinct> layout",
    "outlier-model flags are taken from the run (the statement does not define the outlier model's own decision)",
    "classification-level tables hold modelled units only (statement mechanism note)",
]
FLOOR = {"quick": 40, "thorough": 300}


def parts(tier):
    return [{"name": "e2e", "n": 960 if tier == "quick" else 12000}]


@gen.st.composite
def _strategy(draw):
    case = draw(gen.election_case())
    st = gen.st
    # a quarter of the conformal cases: one or two feed rows whose dem or gop count has not arrived yet (NaN cell)
    if case["req"]["pi"] != "bootstrap" and draw(st.integers(0, 3)) == 0:
        with_feed = [u for u in case["units"] if u["feed"] is not None and u["status"] in (gen.R, gen.N, gen.NH, gen.B, gen.T_HI)]
        for _ in range(draw(st.integers(1, 2))):
            if with_feed:
                u = with_feed[draw(st.integers(0, len(with_feed) - 1))]
                u["feed"]["nan"] = draw(st.sampled_from(["dem", "gop"]))
    return case


STRATEGY = _strategy()


def check_case(case, ctx):
    ctx.evaluated()
    rr = common.run_and_reference(case, ctx)
    if rr is None:
        return
    run, recs = rr
    req = case["req"]
    office = case["office"]
    tables = run.tables
    viol = lambda kind, detail: ctx.violation(kind, detail, case, sig=kind)  # noqa: E731

    # (0) exactly the requested tables
    want = {AGG_TABLE[a] for a in req["aggregates"]}
    if set(tables) != want:
        viol("table_set", f"returned {sorted(tables)} expected {sorted(want)}")
        return

    # (i) unit table
    if "unit_data" in tables:
        ut = tables["unit_data"]
        ids = list(ut["geographic_unit_fips"])
        exp_ids = sorted(r["id"] for r in recs)
        if sorted(ids) != exp_ids:
            miss = sorted(set(exp_ids) - set(ids))[:5]
            extra = sorted(set(ids) - set(exp_ids))[:5]
            dup = sorted({i for i in ids if ids.count(i) > 1})[:5]
            viol("unit_ids", f"missing={miss} extra={extra} duplicated={dup}")
            return
        cats = common.unit_category_series(ut)
        if cats is None:
            viol("unit_category_column", f"unit table has no single unit_category column: {list(ut.columns)}")
        else:
            by_id = {r["id"]: r for r in recs}
            for uid, cat, rep, st in zip(ids, cats, ut["reporting"], ut["postal_code"]):
                r = by_id[uid]
                if cat != r["cat"]:
                    viol("unit_category", f"{uid}: run '{cat}' reference '{r['cat']}' (reasons {r['reasons']})")
                    break
                if float(rep) not in (0.0, 1.0) or int(rep) != r["reporting"]:
                    viol("unit_reporting_flag", f"{uid}: reporting={rep} reference {r['reporting']}")
                    break
                if st != r["st"]:
                    viol("unit_state", f"{uid}: state {st} reference {r['st']}")
                    break
            # outlier categories only when enabled and with more than 20 reporting baseline units
            flagged = [c for c in cats if c in (ref.OUT_T, ref.OUT_M)]
            if flagged:
                n_above = sum(1 for r in recs if r["baseline"] and r["above"])
                if not common.outliers_enabled(case) or n_above <= 20:
                    viol("outlier_category_not_enabled", f"{len(flagged)} outlier categories, enabled={common.outliers_enabled(case)} n_above={n_above}")
            for e in req["estimands"]:
                col = f"results_{e}"
                for uid, v in zip(ids, ut[col]):
                    want = by_id[uid]["res"][e]
                    if want is None:  # the count for this estimand is missing in the feed
                        if not np.isnan(float(v)):
                            viol("unit_results", f"{uid}: {col}={v} although the feed has no count for it")
                            break
                    elif not (float(v) == float(want)):
                        viol("unit_results", f"{uid}: {col}={v} feed {want}")
                        break

    # (ii)+(iii) aggregate levels
    n_levels = 0
    for agg in req["aggregates"]:
        if agg == "unit":
            continue
        n_levels += 1
        keys = level_keys(office, agg)
        t = tables[AGG_TABLE[agg]]
        missing_cols = [k for k in keys if k not in t.columns]
        if missing_cols:
            viol("agg_key_columns", f"{AGG_TABLE[agg]} lacks key columns {missing_cols}: {list(t.columns)}")
            continue
        got_keys = [tuple(x) for x in t[keys].itertuples(index=False, name=None)]
        groups = ref.ref_groups(recs, keys)
        if sorted(map(str, got_keys)) != sorted(map(str, groups.keys())):
            miss = sorted(set(groups) - set(got_keys), key=str)[:4]
            extra = sorted(set(got_keys) - set(groups), key=str)[:4]
            dup = sorted({k for k in got_keys if got_keys.count(k) > 1}, key=str)[:4]
            viol("agg_keys", f"{AGG_TABLE[agg]}: missing={miss} extra={extra} duplicated={dup}")
            continue
        for i, k in enumerate(got_keys):
            members = groups[k]
            rep_ref = sum(m["reporting"] for m in members)
            if float(t["reporting"].iloc[i]) != float(rep_ref):
                viol("agg_reporting", f"{AGG_TABLE[agg]} {k}: reporting={t['reporting'].iloc[i]} reference {rep_ref}")
                break
            bad = False
            for e in req["estimands"]:
                s = sum(m["res"][e] for m in members if m["res"][e] is not None)
                v = float(t[f"results_{e}"].iloc[i])
                if e == "margin":
                    pt = float(t["pred_turnout"].iloc[i])
                    if not np.isfinite(pt) or not np.isfinite(v):
                        viol("agg_margin_not_finite", f"{AGG_TABLE[agg]} {k}: results_margin={v} pred_turnout={pt}")
                        bad = True
                        break
                    if not common.close(v * pt, float(s), rel=1e-9, abs_=1e-6):
                        viol("agg_results_margin", f"{AGG_TABLE[agg]} {k}: results_margin*pred_turnout={v * pt} reference sum {s}")
                        bad = True
                        break
                else:
                    if v != float(s):
                        viol("agg_results", f"{AGG_TABLE[agg]} {k}: results_{e}={v} reference sum {s}")
                        bad = True
                        break
            if bad:
                break

    hist = common.category_histogram(recs)
    classes = set()
    for k in hist:
        if "absent" in k:
            classes.add("absent")
        if k.startswith("reporting"):
            classes.add("reporting")
        elif k.startswith("nonreporting"):
            classes.add("nonreporting")
        elif k.startswith("unexpected"):
            classes.add("unexpected")
        elif k.startswith("non-modeled"):
            classes.add("non-modelled")
    for c in classes:
        ctx.label("has:" + c)
    ctx.label("aggs:" + ",".join(req["aggregates"]))
    if any(r.get("nan_cell") for r in recs) or any((u.get("feed") or {}).get("nan") for u in case["units"]):
        ctx.label("feed_row_with_missing_count")
    if len(classes) >= 3 and n_levels >= 2:
        ctx.nontrivial(common.structure_signature(case, recs), common.summarize_case(case, recs))


def run_part(name, seed, n, tier, ctx, si, sc):
    hyp_run(STRATEGY, lambda case: check_case(case, ctx), seed, n, tier)


def replay(case, ctx):
    check_case(case, ctx)


def facts(case):
    req = case["req"]
    return {"pi": req["pi"], "office": case["office"], "hu": req["hu"]}


shrink_candidates = common.generic_shrink_candidates
