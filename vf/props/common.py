"""Shared pieces for the election-run properties (C01-C03, C05, C06, C11, C13, C14 ...)."""
from __future__ import annotations

import copy

import numpy as np

from vf import ref
from vf.drive import AGG_TABLE, level_keys, run_case
from vf.gen import min_units
from vf.runner import exc_signature, jhash


def is_gate_error(exc):
    return type(exc).__name__ == "ModelNotEnoughSubunitsException"


def outliers_enabled(case):
    mp = case["req"]["mp"]
    return bool(mp.get("fit_turnout_outlier_model", True) or (mp.get("fit_margin_outlier_model", True) and "margin" in case["req"]["estimands"]))


def unit_category_series(unit_df):
    if "unit_category" in unit_df.columns:
        return unit_df["unit_category"]
    return None


def outlier_flags_from_run(case, unit_df):
    """Units the run flagged with an outlier-model category (taken from the run; see DESIGN section 3)."""
    out = {}
    cats = unit_category_series(unit_df)
    if cats is None:
        return out
    for uid, c in zip(unit_df["geographic_unit_fips"], cats):
        if c in (ref.OUT_T, ref.OUT_M):
            out[uid] = c
    return out


def run_and_reference(case, ctx, need_unit=False, client=None):
    """Runs the case; returns (run, recs) when the run completed, else None (gate error -> label, other
    exception -> violation 'exception')."""
    run = run_case(case, client=client)
    ctx.label("pi:" + case["req"]["pi"])
    ctx.label("office:" + case["office"])
    if not run.ok:
        if is_gate_error(run.exc):
            ctx.label("outcome:too_few_units")
            return None
        ctx.label("outcome:exception")
        ctx.violation("exception", f"{type(run.exc).__name__}: {run.exc}", case, sig=exc_signature(run.exc))
        return None
    ctx.label("outcome:completed")
    flags = {}
    if "unit_data" in run.tables:
        flags = outlier_flags_from_run(case, run.tables["unit_data"])
    else:
        # outlier flags are only observable through the unit table; recover them from the client's frames
        try:
            un = run.client.results_handler.unexpected_units
            for uid, c in zip(un["geographic_unit_fips"], un["unit_category"]):
                if c in (ref.OUT_T, ref.OUT_M):
                    flags[uid] = c
        except Exception:
            flags = {}
    recs = ref.categorise(case, flags)
    return run, recs


def category_histogram(recs):
    h = {}
    for r in recs:
        k = r["cat"] if r["cat"] != ref.EXPECTED else ("reporting" if r["reporting"] else "nonreporting")
        if r.get("absent"):
            k += "+absent"
        h[k] = h.get(k, 0) + 1
    return h


def structure_signature(case, recs):
    req = case["req"]
    per_group = {}
    for r in recs:
        per_group.setdefault((r["st"], r["county"]), []).append(r["cat"][:14] + str(r["reporting"]))
    hist = sorted(tuple(sorted(v)) for v in per_group.values())
    return jhash([req["pi"], case["office"], req["aggregates"], req["hu"], req["thr"], hist])


def summarize_case(case, recs=None):
    req = case["req"]
    s = {
        "office": case["office"],
        "n_units": len(case["units"]),
        "n_extra": len(case.get("extra", [])),
        "request": {k: req[k] for k in ("pi", "estimands", "alphas", "aggregates", "thr", "hu", "features", "fe")},
        "model_parameters": {k: v for k, v in req["mp"].items() if k != "unit_blocklist"},
        "n_blocklisted": len(req["mp"].get("unit_blocklist", [])),
        "first_units": [
            {k: u[k] for k in ("id", "st", "cls", "bd", "bg", "bo", "status", "feed")} for u in case["units"][:3]
        ],
    }
    if recs is not None:
        s["categories"] = category_histogram(recs)
    return s


def generic_shrink_candidates(case):
    """Smaller cases: drop extra rows, drop chunks of units, drop request dimensions."""
    units = case["units"]
    extra = case.get("extra", [])
    for i in range(len(extra)):
        c = copy.deepcopy(case)
        del c["extra"][i]
        yield c
    n = len(units)
    chunk = max(1, n // 2)
    while chunk >= 1:
        for start in range(0, n, chunk):
            c = copy.deepcopy(case)
            removed = {u["id"] for u in c["units"][start : start + chunk]}
            c["units"] = c["units"][:start] + c["units"][start + chunk :]
            bl = c["req"]["mp"].get("unit_blocklist")
            if bl:
                c["req"]["mp"]["unit_blocklist"] = [b for b in bl if b not in removed]
            if c["units"]:
                yield c
        if chunk == 1:
            break
        chunk //= 2
    req = case["req"]
    if len(req["alphas"]) > 1:
        for i in range(len(req["alphas"])):
            c = copy.deepcopy(case)
            del c["req"]["alphas"][i]
            yield c
    if len(req["aggregates"]) > 1:
        for i in range(len(req["aggregates"])):
            c = copy.deepcopy(case)
            del c["req"]["aggregates"][i]
            yield c
    if len(req["estimands"]) > 1:
        for i in range(len(req["estimands"])):
            c = copy.deepcopy(case)
            del c["req"]["estimands"][i]
            yield c
    if req["features"] and req["pi"] != "bootstrap":
        c = copy.deepcopy(case)
        c["req"]["features"] = []
        yield c
    if req["fe"]:
        c = copy.deepcopy(case)
        c["req"]["fe"] = {}
        yield c


def fnum(x):
    return float(x)


def close(a, b, rel=1e-9, abs_=1e-9):
    return abs(a - b) <= max(abs_, rel * max(abs(a), abs(b)))


def common_facts(case):
    """facts used to match known findings (known_findings.json: match.where)"""
    req = case.get("req", {})
    mp = req.get("mp", {})
    return {
        "pi": req.get("pi"),
        "office": case.get("office"),
        "hu": req.get("hu"),
        "lambda_zero": ("lambda_" in mp and mp["lambda_"] == 0),
        "fe_nonempty": bool(req.get("fe")),
    }
