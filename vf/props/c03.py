"""C03 - counted votes are a floor and reported units are final."""
from __future__ import annotations

import numpy as np

from vf import gen, ref
from vf.drive import AGG_TABLE, level_keys
from vf.props import common
from vf.runner import hyp_run

ID = "C03"
LEVEL = "exploration"
RULE = (
    "Generated elections (as C01) with the hard cases forced: nonreporting units whose partial count is 3-40x the "
    "final count, strongly negative swings, tiny calibration spreads (gaussian aggregate bounds below partial "
    "counts), 100% reporting, groups without nonreporting units, outstanding units without counted votes for which the regression extrapolates below -100 %. Oracle: every unit/group pred, lower, upper >= "
    "counted votes, finite whole numbers; reporting/unexpected/non-modelled units pred = lower = upper = counted; "
    "groups without nonreporting units have zero width at the counted votes; bootstrap reporting/unexpected units "
    "carry results_margin in all three columns. Non-trivial: a nonreporting unit whose prediction or bound equals its "
    "partial count (floor binds), a group whose bound equals its counted votes although it has nonreporting units, "
    "or a fully reported group. Distinct = structure hash + which sites bound."
)
ASSUMPTIONS = ["feed unit ids unique; feed postal codes are config states; votes non-negative integers"]
FLOOR = {"quick": 30, "thorough": 250}


def parts(tier):
    return [{"name": "e2e", "n": 640 if tier == "quick" else 8000}]


@gen.st.composite
def _strategy(draw):
    mode = draw(gen.st.integers(0, 7))
    hard = tuple([gen.NH] * 6 + [gen.N, gen.N0, gen.A, gen.Z, gen.B, gen.BN, gen.BN, gen.ZN, gen.T_HI])
    sbo = 3  # blocklisted states (together with unit blocklists) in a third of the multi-state elections
    if mode == 0:  # everything reports
        case = draw(gen.election_case(max_other=0, special_counties=False, thresholds=(100, 90), state_blocklist_odds=sbo))
    elif mode in (1, 2):
        case = draw(gen.election_case(statuses=hard, min_nonrep=2, swing_scale=0.05, state_blocklist_odds=sbo))
    elif mode == 6:
        # larger multi-state gaussian elections: groups with their own calibration model next to groups (of the same
        # classification / district label in another state) that fall back on a parent's model
        case = draw(
            gen.election_case(
                estimators=("gaussian",), statuses=hard, min_nonrep=6, slack=(25, 90), max_other=30, min_states=2, max_counties=3, outliers=(False,), allow_fe=False, state_blocklist_odds=sbo
            )
        )
        case["req"]["mp"].pop("winsorize", None)
    elif mode == 7:
        # the regression extrapolates below -100 %: the change depends strongly on the covariate and outstanding units
        # without any counted vote sit far out on it, so only the floor keeps their prediction at or above 0
        case = draw(gen.election_case(estimators=("nonparametric", "gaussian"), statuses=(gen.N0, gen.N0, gen.N, gen.NH, gen.A), min_nonrep=2, allow_fe=False, outliers=(False,), state_blocklist_odds=sbo))
        case["req"]["features"] = ["x1"]
        far = 0
        for u in case["units"]:
            f = u.get("feed")
            if u["status"] in (gen.R, gen.RB) and f is not None:
                u["x1"] = max(-1.8, min(1.8, u["x1"]))
                k = 1 + 0.25 * u["x1"]
                f.update(rd=int(u["bd"] * k), rg=int(u["bg"] * k), ro=int(u["bo"] * k))
            elif u["status"] == gen.N0 and far < 3:
                u["x1"] = -6.0 - far
                far += 1
    elif mode == 3:
        case = draw(gen.election_case(statuses=hard, min_nonrep=2, swing_scale=2.0, state_blocklist_odds=sbo))
    else:
        case = draw(gen.election_case(min_nonrep=1, state_blocklist_odds=sbo))
    if "unit" not in case["req"]["aggregates"]:
        case["req"]["aggregates"] = case["req"]["aggregates"] + ["unit"]
    case["mode"] = mode
    return case


STRATEGY = _strategy()


def check_case(case, ctx):
    ctx.evaluated()
    rr = common.run_and_reference(case, ctx)
    if rr is None:
        return
    run, recs = rr
    req = case["req"]
    office = case["office"]
    tables = run.tables
    pi = req["pi"]
    viol = lambda kind, detail: ctx.violation(kind, detail, case, sig=kind)  # noqa: E731
    by_id = {r["id"]: r for r in recs}
    bound_sites = set()
    ut = tables["unit_data"]
    ids = list(ut["geographic_unit_fips"])
    if set(ids) != set(by_id) or len(ids) != len(by_id):
        return
    for e in req["estimands"]:
        cols = [f"pred_{e}"] + [f"{s}_{a}_{e}" for a in req["alphas"] for s in ("lower", "upper")]
        res = ut[f"results_{e}"].to_numpy(dtype=float)
        for c in cols:
            v = ut[c].to_numpy(dtype=float)
            if e != "margin":
                if not np.isfinite(v).all():
                    viol("unit_not_finite", f"{c}: non-finite value")
                    return
                if not (v == np.round(v)).all():
                    viol("unit_not_integral", f"{c}: {v[v != np.round(v)][:3]}")
                    return
                if not (v >= res).all():
                    i = int(np.argmax(v < res))
                    viol("unit_below_counted", f"{ids[i]} {c}={v[i]} < results {res[i]}")
                    return
            for i, uid in enumerate(ids):
                r = by_id[uid]
                final_unit = not (r["cat"] == ref.EXPECTED and r["reporting"] == 0)
                if e == "margin" and r["cat"] not in (ref.EXPECTED, ref.UNEXPECTED):
                    final_unit = final_unit  # non-modelled units are passed through as well
                if final_unit and not (v[i] == res[i]):
                    viol("final_unit_not_counted", f"{uid} ({r['cat']}, reporting={r['reporting']}) {c}={v[i]} results={res[i]}")
                    return
                if not final_unit and e != "margin" and v[i] == res[i] and res[i] > 0:
                    bound_sites.add("unit_" + c.split("_")[0])
    if pi != "bootstrap":
        for agg in req["aggregates"]:
            if agg == "unit":
                continue
            keys = level_keys(office, agg)
            t = tables[AGG_TABLE[agg]]
            if any(k not in t.columns for k in keys):
                continue
            groups = ref.ref_groups(recs, keys)
            got = [tuple(x) for x in t[keys].itertuples(index=False, name=None)]
            for e in req["estimands"]:
                cols = [f"pred_{e}"] + [f"{s}_{a}_{e}" for a in req["alphas"] for s in ("lower", "upper")]
                res = t[f"results_{e}"].to_numpy(dtype=float)
                for c in cols:
                    v = t[c].to_numpy(dtype=float)
                    if not np.isfinite(v).all():
                        viol("agg_not_finite", f"{AGG_TABLE[agg]} {c}: {v}")
                        return
                    if not (v == np.round(v)).all():
                        viol("agg_not_integral", f"{AGG_TABLE[agg]} {c}: {v[v != np.round(v)][:3]}")
                        return
                    if not (v >= res).all():
                        i = int(np.argmax(v < res))
                        viol("agg_below_counted", f"{AGG_TABLE[agg]} {got[i]} {c}={v[i]} < results {res[i]}")
                        return
                    for i, k in enumerate(got):
                        members = groups.get(k)
                        if members is None:
                            continue
                        has_nonrep = any(m["cat"] == ref.EXPECTED and not m["reporting"] for m in members)
                        if not has_nonrep:
                            if v[i] != res[i]:
                                viol("reported_group_not_final", f"{AGG_TABLE[agg]} {k} {c}={v[i]} counted {res[i]} (no nonreporting unit)")
                                return
                            bound_sites.add("group_fully_reported")
                        elif v[i] == res[i] and res[i] > 0:
                            bound_sites.add("group_" + c.split("_")[0])
    for s in bound_sites:
        ctx.label("bound:" + s)
    ctx.label("mode:" + str(case.get("mode")))
    if bound_sites:
        ctx.nontrivial(common.structure_signature(case, recs) + "|" + ",".join(sorted(bound_sites)), common.summarize_case(case, recs))


def run_part(name, seed, n, tier, ctx, si, sc):
    hyp_run(STRATEGY, lambda case: check_case(case, ctx), seed, n, tier)


def replay(case, ctx):
    check_case(case, ctx)


def facts(case):
    req = case["req"]
    return {"pi": req["pi"], "office": case["office"], "hu": req["hu"]}


shrink_candidates = common.generic_shrink_candidates
