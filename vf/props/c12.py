"""C12 - estimates are a deterministic function of the arguments."""
from __future__ import annotations

import copy
import json
import os
import subprocess
import sys
import tempfile

import hypothesis
from hypothesis import HealthCheck, Phase, settings
from hypothesis import strategies as st
from hypothesis.stateful import RuleBasedStateMachine, initialize, precondition, rule, run_state_machine_as_test

from vf import gen
from vf.drive import call_arguments, make_frames, run_case, table_digest
from vf.props import common
from vf.runner import exc_signature, hyp_run, jhash

ID = "C12"
LEVEL = "exploration"
RULE = (
    "(a) Hypothesis rule-based state machine: a pool of 2-3 generated (election, request) pairs across the three "
    "estimators; rules run(i) on a long-lived client, run_fresh(i) on a new client, run_reusing_frames(i) (the same "
    "DataFrame objects passed again, as a pipeline holding one loaded baseline would), run_reusing_arguments(i) (the same "
    "model-parameter / config dicts and estimand / level / aggregate lists passed again), summary(i) (bootstrap national "
    "summary after a run); model = digest of the first result of i; every later result of i must equal it bit for bit "
    "whatever ran in between. (b) the same serialised case run in fresh interpreters under PYTHONHASHSEED 0, 1 and "
    "random (incl. historical-evaluation cases, whose aggregate order goes through a set): the table digests and the "
    "set of returned tables must agree (the ORDER of the keys of the returned dict does depend on the hash seed in the "
    "historical client; that is not table content and is not asserted). (c) seeds: equal seeds equal results (a); a different seed changes some result "
    "(anti-vacuity, reported). Non-trivial: a history in which request i is run at least twice with a different request "
    "in between. (d) one election with >20 reporting units and outlier models on, a bootstrap margin request and a "
    "conformal vote-count request run alternately on the SAME frame objects: each result equals the request's result on "
    "fresh frames. (e) national summary after one bootstrap run: the same call twice gives the same table, the same call gives the same table as a client's first call and after calls with other bases and levels, and a level's "
    "numbers are the same whether it is asked for together with other levels or alone on an identical client. Distinct = history shape (sequence of rule names and estimators)."
)
ASSUMPTIONS = [
    "bitwise comparison on canonicalised tables (numeric columns as float64, dtype not compared)",
    "single-threaded BLAS/OMP in every worker and subprocess",
]
FLOOR = {"quick": 15, "thorough": 100}


def parts(tier):
    if tier == "quick":
        return [{"name": "machine", "n": 64}, {"name": "subprocess", "n": 16}, {"name": "seed", "n": 32}, {"name": "frames", "n": 48}, {"name": "summary", "n": 64}]
    return [{"name": "machine", "n": 800}, {"name": "subprocess", "n": 240}, {"name": "seed", "n": 480}, {"name": "frames", "n": 800}, {"name": "summary", "n": 1000}]


def small_case(**kw):
    base = dict(max_states=2, max_counties=3, max_other=8, slack=(0, 6), max_alphas=2, Bs=(10, 20), alphas_pool=(0.5, 0.7, 0.8), aggregates_mode="top")
    base.update(kw)
    return gen.election_case(**base)


def digest_of(run, office):
    return table_digest(run.tables, office)


class Histories(RuleBasedStateMachine):
    ctx = None  # set by run_part

    def __init__(self):
        super().__init__()
        self.cases = []
        self.first = {}
        self.first_summary = {}
        self.frames = {}
        self.args = {}
        self.client = None
        self.trace = []
        self.last_on_client = None
        self.failed = False
        self.shared = False

    @initialize(cases=st.lists(small_case(), min_size=2, max_size=3), shared=st.booleans())
    def setup(self, cases, shared):
        from elexmodel.client import ModelClient

        self.shared = shared
        if shared:
            # one election, several requests: a pipeline that holds ONE loaded baseline / feed and asks for
            # different estimands and estimators; run_reusing_frames then passes the same frame objects to all
            first = cases[0]
            valid = gen.valid_aggregates(first["office"]) + ["unit"]
            for c in cases[1:]:
                for k in ("office", "gut", "states", "float_votes", "units", "extra"):
                    c[k] = copy.deepcopy(first[k])
                c["req"]["aggregates"] = [a for a in c["req"]["aggregates"] if a in valid] or ["postal_code", "unit"]
                c["req"]["mp"].pop("unit_blocklist", None)
                c["req"]["mp"].pop("postal_code_blocklist", None)
        self.cases = cases
        self.client = ModelClient()
        Histories.ctx.evaluated()
        # the model: the result of every request on a fresh client with freshly built frames
        for i, c in enumerate(cases):
            self._record(i, run_case(copy.deepcopy(c)), "reference_fresh")
        self.trace = []

    def _record(self, i, run, how):
        ctx = Histories.ctx
        case = self.cases[i]
        self.trace.append((how, case["req"]["pi"], i))
        if not run.ok:
            key = ("exc", type(run.exc).__name__, str(run.exc)[:200])
        else:
            key = ("ok", digest_of(run, case["office"]), tuple(run.tables.keys()))
        if i not in self.first:
            self.first[i] = (key, how)
            return
        if key != self.first[i][0] and not self.failed:
            self.failed = True
            stored = {"case": case, "history": [list(t) for t in self.trace], "pool": self.cases, "index": i, "shared": self.shared}
            ctx.violation(
                "result_differs",
                f"request {i} ({case['req']['pi']}): first result via {self.first[i][1]} = {self.first[i][0][:2]}, now via {how} = {key[:2]}; history {self.trace}",
                stored,
                sig=f"{case['req']['pi']}|{how}",
            )

    @rule(i=st.integers(0, 2))
    def run(self, i):
        i %= len(self.cases)
        r = run_case(self.cases[i], client=self.client)
        self.last_on_client = i if r.ok else None
        self._record(i, r, "run")

    @rule(i=st.integers(0, 2))
    def run_fresh(self, i):
        i %= len(self.cases)
        r = run_case(self.cases[i])
        self._record(i, r, "run_fresh")

    @rule(i=st.integers(0, 2))
    def run_reusing_frames(self, i):
        i %= len(self.cases)
        fk = 0 if self.shared else i
        if fk not in self.frames:
            self.frames[fk] = make_frames(self.cases[fk])
        r = run_case(self.cases[i], client=self.client, frames=self.frames[fk])
        self.last_on_client = i if r.ok else None
        self._record(i, r, "run_reusing_frames")

    @rule(i=st.integers(0, 2))
    def run_reusing_arguments(self, i):
        """The same argument OBJECTS (model-parameter dict, config dict, estimand / level / aggregate lists, fixed
        effects) are passed again, as a caller holding its settings in variables would: a call must not change them."""
        i %= len(self.cases)
        if i not in self.args:
            self.args[i] = call_arguments(self.cases[i])
        r = run_case(self.cases[i], client=self.client, args=self.args[i])
        self.last_on_client = i if r.ok else None
        self._record(i, r, "run_reusing_arguments")

    @precondition(lambda self: self.last_on_client is not None and self.cases[self.last_on_client]["req"]["pi"] == "bootstrap")
    @rule()
    def summary(self):
        ctx = Histories.ctx
        i = self.last_on_client
        case = self.cases[i]
        self.trace.append(("summary", "bootstrap", i))
        def once():
            try:
                df = self.client.get_national_summary_votes_estimates(None, 0, list(case["req"]["alphas"]) + [0.99])
                return ("ok", jhash(df.to_dict("list")))
            except Exception as e:
                return ("exc", type(e).__name__, str(e)[:200])

        key = once()
        again = once()  # the same call with equal arguments, immediately afterwards, on the same model state
        if again != key and not self.failed:
            self.failed = True
            ctx.violation(
                "summary_differs",
                f"two consecutive national summary calls with equal arguments after request {i}: {key} then {again}; history {self.trace}",
                {"case": case, "history": [list(t) for t in self.trace], "pool": self.cases, "index": i, "shared": self.shared},
                sig="summary_repeat",
            )
        if i not in self.first_summary:
            self.first_summary[i] = key
        elif key != self.first_summary[i] and not self.failed:
            self.failed = True
            ctx.violation(
                "summary_differs",
                f"national summary of request {i}: first {self.first_summary[i]}, now {key}; history {self.trace}",
                {"case": case, "history": [list(t) for t in self.trace], "pool": self.cases, "index": i},
                sig="summary",
            )

    @precondition(lambda self: self.last_on_client is not None and self.cases[self.last_on_client]["req"]["pi"] == "bootstrap")
    @rule()
    def summary_again(self):
        self.summary()

    def teardown(self):
        ctx = Histories.ctx
        if ctx is None or not self.trace:
            return
        # non-trivial: some request run at least twice with a different request in between
        seen = {}
        nontrivial = False
        for pos, (how, pi, i) in enumerate(self.trace):
            if how == "summary":
                continue
            if i in seen and any(t[2] != i for t in self.trace[seen[i] + 1 : pos]):
                nontrivial = True
            seen.setdefault(i, pos)
        for how, pi, i in self.trace:
            ctx.label(f"rule:{how}")
            ctx.label(f"pi:{pi}")
        ctx.label("pool:" + ("one election, several requests" if self.shared else "separate elections"))
        if nontrivial:
            ctx.nontrivial(
                jhash([(h, p) for h, p, _ in self.trace]),
                {"history": [list(t) for t in self.trace], "requests": [common.summarize_case(c)["request"] for c in self.cases]},
            )


def run_machine(seed, n, tier, ctx):
    Histories.ctx = ctx
    s = settings(
        max_examples=max(1, n),
        stateful_step_count=6 if tier == "quick" else 8,
        database=None,
        deadline=None,
        report_multiple_bugs=False,
        phases=[Phase.generate],
        suppress_health_check=list(HealthCheck),
    )
    run_state_machine_as_test(hypothesis.seed(seed)(Histories), settings=s)


# ---- (b) fresh interpreters under different hash seeds ---------------------------------------------------------
SUB_SNIPPET = r"""
import json, sys
from vf.drive import run_case, table_digest
case = json.load(open(sys.argv[1]))
if case.get("historical"):
    from vf.hist import run_historical
    ok, out = run_historical(case)
    if not ok:
        print(json.dumps({"exc": type(out).__name__ + ": " + str(out)[:200]}))
    else:
        res = {}
        for hid, d in out.items():
            def strkeys(o):
                return {str(k): strkeys(v) for k, v in o.items()} if isinstance(o, dict) else o
            res[hid] = {"digest": table_digest(d["estimates"], case["office"]), "keys": sorted(d["estimates"].keys()),
                        "evaluation": json.dumps(strkeys(d["evaluation"]), sort_keys=True, default=str)}
        print(json.dumps(res))
else:
    r = run_case(case)
    if not r.ok:
        print(json.dumps({"exc": type(r.exc).__name__ + ": " + str(r.exc)[:200]}))
    else:
        print(json.dumps({"digest": table_digest(r.tables, case["office"]), "keys": sorted(r.tables.keys())}))
"""


def check_subprocess(case, ctx):
    ctx.evaluated()
    fd, path = tempfile.mkstemp(prefix="vf_c12_", suffix=".json", dir=os.environ.get("VERIF_TMP", "/tmp"))
    try:
        with os.fdopen(fd, "w") as f:
            json.dump(case, f)
        outs = []
        for hs in ("0", "1", "random"):
            env = dict(os.environ, PYTHONHASHSEED=hs)
            p = subprocess.run([sys.executable, "-c", SUB_SNIPPET, path], env=env, capture_output=True, text=True, timeout=600)
            if p.returncode != 0:
                raise RuntimeError(f"subprocess failed: {p.stderr[-2000:]}")
            outs.append(p.stdout.strip().splitlines()[-1])
        kind = "historical" if case.get("historical") else case["req"]["pi"]
        ctx.label("sub:" + kind)
        if len(set(outs)) != 1:
            ctx.violation("differs_across_processes", f"PYTHONHASHSEED 0/1/random give {outs}", case, sig=kind)
        if '"exc"' not in outs[0]:
            ctx.nontrivial("sub|" + jhash(case["req"]) + "|" + kind, {"part": "subprocess", "request": common.summarize_case(case)["request"], "historical": bool(case.get("historical"))})
    finally:
        os.unlink(path)


@st.composite
def _sub_strategy(draw, stratum=None):
    # stratified by shard: nonparametric / gaussian / bootstrap / historical each get a quarter of the shards
    kinds = ["nonparametric", "gaussian", "bootstrap", "historical"]
    kind = kinds[stratum % 4] if stratum is not None else draw(st.sampled_from(kinds))
    hist = kind == "historical"
    if hist:
        case = draw(small_case(estimators=("nonparametric",), offices=("G",), allow_extra=False, policies=("drop",), aggregates_mode="any", statuses=(gen.N, gen.N0, gen.A), special_counties=False, allow_state_blocklist=False, tf_limits=((0.5, 2.0),)))
        case["historical"] = True
    else:
        case = draw(small_case(estimators=(kind,), min_nonrep=1))
        if kind == "bootstrap" and draw(st.booleans()):
            # two strata columns: their order (and with it the order of the strata dummies and of the seeded
            # re-sampling) must come from the setting, not from a hash-ordered container
            case["req"]["mp"]["strata"] = ["county_classification", "postal_code"]
    return case


def check_seed(case, ctx):
    ctx.evaluated()
    a = run_case(case)
    b = run_case(copy.deepcopy(case))
    if not a.ok:
        return
    if not b.ok or digest_of(a, case["office"]) != digest_of(b, case["office"]):
        ctx.violation("same_seed_differs", f"two fresh runs with equal arguments differ ({case['req']['pi']})", case, sig=case["req"]["pi"])
        return
    c2 = copy.deepcopy(case)
    c2["req"]["mp"]["seed"] = case["req"]["mp"].get("seed", 0) + 1
    c = run_case(c2)
    changed = c.ok and digest_of(c, case["office"]) != digest_of(a, case["office"])
    ctx.label(f"other_seed_changes_result:{case['req']['pi']}:{changed}")
    has_nonrep = any(u["status"] in (gen.N, gen.N0, gen.NH) for u in case["units"])
    if has_nonrep:
        ctx.nontrivial("seed|" + jhash([case["req"], len(case["units"])]), {"part": "seed", "request": common.summarize_case(case)["request"], "other_seed_changes_result": bool(changed)})


# ---- (d) one loaded baseline / feed, several different requests ---------------------------------------------------------
@st.composite
def _frames_strategy(draw):
    """One election with more than 20 reporting units and outlier models on, and two requests on it: a bootstrap
    margin request and a conformal vote-count request."""
    a = draw(small_case(estimators=("bootstrap",), outliers=(True,), slack=(12, 20), max_other=10, min_nonrep=2, allow_state_blocklist=False))
    b = draw(small_case(estimators=("nonparametric", "gaussian"), outliers=(True,), max_other=0, allow_state_blocklist=False))
    for k in ("office", "gut", "states", "float_votes", "units", "extra"):
        b[k] = copy.deepcopy(a[k])
    valid = gen.valid_aggregates(a["office"]) + ["unit"]
    b["req"]["aggregates"] = [x for x in b["req"]["aggregates"] if x in valid] or ["postal_code", "unit"]
    b["req"]["mp"].pop("unit_blocklist", None)
    if a["req"]["mp"].get("unit_blocklist"):
        b["req"]["mp"]["unit_blocklist"] = list(a["req"]["mp"]["unit_blocklist"])
    return {"pool": [a, b], "order": draw(st.permutations([0, 1, 0, 1]))}


def check_frames(case, ctx):
    """Every request's result on frame objects that other requests have used before equals its result on fresh ones."""
    from elexmodel.client import ModelClient

    ctx.evaluated()
    pool = case["pool"]
    ref_keys = []
    for c in pool:
        r = run_case(copy.deepcopy(c))
        ref_keys.append(("ok", digest_of(r, c["office"])) if r.ok else ("exc", type(r.exc).__name__, str(r.exc)[:200]))
    frames = make_frames(pool[0])
    client = ModelClient()
    hist = []
    for i in case["order"]:
        c = pool[i]
        r = run_case(c, client=client, frames=frames)
        key = ("ok", digest_of(r, c["office"])) if r.ok else ("exc", type(r.exc).__name__, str(r.exc)[:200])
        hist.append(["run_reusing_frames", c["req"]["pi"], i])
        if key != ref_keys[i]:
            ctx.violation(
                "result_differs",
                f"request {i} ({c['req']['pi']} {c['req']['estimands']}) on frame objects already used by {hist[:-1]}: {key[:2]}; on fresh frames {ref_keys[i][:2]}",
                {"case": c, "history": hist, "pool": pool, "index": i, "shared": True},
                sig=f"{c['req']['pi']}|run_reusing_frames",
            )
            return
    ctx.label("frames:" + "+".join(p["req"]["pi"] for p in pool))
    if all(k[0] == "ok" for k in ref_keys):
        ctx.nontrivial("frames|" + jhash([p["req"] for p in pool] + [list(case["order"])]), {"part": "frames", "order": list(case["order"]), "requests": [common.summarize_case(p)["request"] for p in pool]})


# ---- (e) the national summary is a function of its arguments too --------------------------------------------------------
SUMMARY_CASES = small_case(estimators=("bootstrap",), min_nonrep=3, max_states=3, lambdas=(0, 0.1), Bs=(10, 20, 40), max_alphas=2)


def check_summary(case, ctx):
    """After one run: the same summary call twice gives the same table; a level's numbers do not depend on which other
    levels were asked for in the same or in an earlier call (compared with a second, identical client)."""
    ctx.evaluated()
    c = copy.deepcopy(case)
    c["req"]["aggregates"] = (["postal_code", "district"] if c["office"] == "H" else ["postal_code"]) + ["unit"]
    r1, r2 = run_case(c), run_case(copy.deepcopy(c))
    if not (r1.ok and r2.ok):
        return
    levels = sorted(set(c["req"]["alphas"]) | {0.5, 0.9})
    try:
        # the very first summary call of a client: one level, base 0
        t0 = r1.client.get_national_summary_votes_estimates(None, 0, levels[:1]).to_dict("list")
        a1 = r1.client.get_national_summary_votes_estimates(None, 0, levels).to_dict("list")
        a2 = r1.client.get_national_summary_votes_estimates(None, 0, levels).to_dict("list")
        single = {}
        # other client: first a call with other arguments (all levels, another base), then one level per call, in
        # another order
        r2.client.get_national_summary_votes_estimates(None, 7, levels)
        for lv in reversed(levels):
            d = r2.client.get_national_summary_votes_estimates(None, 0, [lv]).to_dict("list")
            single[lv] = (d["agg_pred"][0], d[f"lower_{lv}"][0], d[f"upper_{lv}"][0])
        t0_later = d  # the same arguments as t0, after a history of calls with other arguments
    except Exception as e:
        ctx.violation("exception", f"national summary: {type(e).__name__}: {e}", case, sig=exc_signature(e))
        return
    if t0 != t0_later:
        ctx.violation("summary_differs", f"summary(None, 0, {levels[:1]}) as a client's first call: {t0}; after calls with other bases and levels on an identical client: {t0_later}", dict(case, replay_part="summary"), sig="summary_history")
        return
    if a1 != a2:
        ctx.violation("summary_differs", f"two consecutive summary calls with equal arguments: {a1} then {a2}", dict(case, replay_part="summary"), sig="summary_repeat")
        return
    for lv in levels:
        got = (a1["agg_pred"][0], a1[f"lower_{lv}"][0], a1[f"upper_{lv}"][0])
        if got != single[lv]:
            ctx.violation("summary_differs", f"level {lv}: {got} when asked together with {levels}, {single[lv]} when asked alone on an identical client", dict(case, replay_part="summary"), sig="summary_level_context")
            return
    if any(a1[f"lower_{lv}"][0] != a1[f"upper_{lv}"][0] for lv in levels):
        ctx.nontrivial("summary|" + jhash([c["req"], len(c["units"])]), {"part": "summary", "levels": levels, "table": {k: v[0] for k, v in a1.items()}})


def run_part(name, seed, n, tier, ctx, si, sc):
    if name == "summary":
        hyp_run(SUMMARY_CASES, lambda case: check_summary(case, ctx), seed, n, tier)
        return
    if name == "frames":
        hyp_run(_frames_strategy(), lambda case: check_frames(case, ctx), seed, n, tier)
        return
    if name == "machine":
        run_machine(seed, n, tier, ctx)
    elif name == "subprocess":
        hyp_run(_sub_strategy(stratum=si), lambda case: check_subprocess(case, ctx), seed, n, tier)
    else:
        hyp_run(small_case(min_nonrep=1), lambda case: check_seed(case, ctx), seed, n, tier)


def replay(case, ctx):
    if "history" in case:
        # re-execute the recorded history
        from elexmodel.client import ModelClient

        pool = case["pool"]
        client = ModelClient()
        frames = {}
        args_of = {}
        first = {}
        first_summary = {}
        for how, pi, i in case["history"]:
            c = pool[i]
            if how == "summary":
                keys2 = []
                for _ in range(2):
                    try:
                        df = client.get_national_summary_votes_estimates(None, 0, list(c["req"]["alphas"]) + [0.99])
                        keys2.append(("ok", jhash(df.to_dict("list"))))
                    except Exception as e:
                        keys2.append(("exc", type(e).__name__, str(e)[:200]))
                key = keys2[0]
                if keys2[0] != keys2[1]:
                    ctx.violation("summary_differs", f"replayed history: consecutive summaries {keys2}", case, sig="summary_repeat")
                    return
                if i in first_summary and key != first_summary[i]:
                    ctx.violation("summary_differs", f"replayed history: {first_summary[i]} vs {key}", case, sig="summary")
                    return
                first_summary.setdefault(i, key)
                continue
            if how == "run":
                r = run_case(c, client=client)
            elif how == "run_fresh":
                r = run_case(c)
            elif how == "run_reusing_arguments":
                if i not in args_of:
                    args_of[i] = call_arguments(c)
                r = run_case(c, client=client, args=args_of[i])
            else:
                fk = 0 if case.get("shared") else i
                if fk not in frames:
                    frames[fk] = make_frames(pool[fk])
                r = run_case(c, client=client, frames=frames[fk])
            key = ("ok", digest_of(r, c["office"])) if r.ok else ("exc", type(r.exc).__name__, str(r.exc)[:200])
            if i in first and key != first[i]:
                ctx.violation("result_differs", f"replayed history: request {i} first {first[i]} now via {how} {key}", case, sig=f"{c['req']['pi']}|{how}")
                return
            first.setdefault(i, key)
    elif case.get("historical") or "sub" in case:
        check_subprocess(case, ctx)
    elif case.get("req", {}).get("pi") == "bootstrap" and case.get("replay_part") == "summary":
        check_summary(case, ctx)
    else:
        check_seed(case, ctx)


def facts(case):
    c = case.get("case", case)
    return {"pi": c.get("req", {}).get("pi")}
