"""C19 - version retrieval returns exactly the requested window despite paging and faults.

A real ``S3VersionUtil`` (and a real ``VersionedDataHandler``) is driven against a scripted storage service:

* ``FakeS3.list_object_versions`` lists one key's versions newest-first in pages; the next page starts *after* the
  (KeyMarker, VersionIdMarker) pair, exactly like the real service (a key marker that is not the key is compared
  lexicographically, an unknown version-id marker is an InvalidArgument error, absent elements are omitted from the
  response);
* ``FakeManager.download`` returns futures that, when awaited, either write the version's CSV body (truncated to
  the size the caller announced through its subscriber) or write a partial body and raise.

A case is plain JSON:

    {"mode": "list"|"full", "ts": [ms since epoch, newest first, non-increasing], "page": P | [P1, P2, ...],
     "start": ms|None, "end": ms|None, "sample": k, "fail": [version indices], "tz": zone, "fmt": "short"|"results",
     "handler": bool}
"""
from __future__ import annotations

import functools
import hashlib
import itertools
import os
from datetime import datetime, timedelta, timezone
from zoneinfo import ZoneInfo

from hypothesis import strategies as st

from vf.runner import exc_signature, hyp_run

os.environ.setdefault("AWS_DEFAULT_REGION", "us-east-1")
os.environ.setdefault("AWS_ACCESS_KEY_ID", "verif-dummy")
os.environ.setdefault("AWS_SECRET_ACCESS_KEY", "verif-dummy")
os.environ.setdefault("AWS_EC2_METADATA_DISABLED", "true")

ID = "C19"
LEVEL = "fault_enumeration"
RULE = (
    "A real S3VersionUtil / VersionedDataHandler against a scripted service (newest-first listing paged with "
    "IsTruncated/NextKeyMarker/NextVersionIdMarker, next page starts after the marker pair; downloads are futures "
    "that write the version's CSV or fail). (exh_list) every history with n<=8 versions x every tie pattern of "
    "adjacent timestamps x page size<=4 x every start and end position in {None, before all, on each distinct "
    "timestamp, between each adjacent pair, after all}: list_versions must equal the versions with "
    "start<=LastModified<=end, each once, newest first, and terminate. (exh_fault) n<=5, page 2, sample 1-3, open "
    "and page-cutting windows, both zones, EVERY failing subset of the downloads that leaves one success. (gen) "
    "Hypothesis: 0-40 versions, strict or tied timestamps around DST changes, page 1-12 (also varying per call), "
    "start/end each in {None, before, after, on, between, cutting a page}, sample 1-5, any failing subset leaving "
    ">=1 success, zone in {America/New_York, UTC}: get() must request exactly listed[::sample], return exactly the "
    "rows of the successful ones, each stamped with its own version's instant at the zone's UTC offset, raise "
    "nothing; an empty window gives None from get() and from VersionedDataHandler.get_versioned_results. "
    "Non-trivial: (a window edge falls inside a page and there are >=2 pages) or (>=1 failing and >=1 succeeding "
    "download). Distinct = (n, page, start kind, end kind, cuts-a-page, sample, any failure)."
)
ASSUMPTIONS = [
    "one key under the prefix, no delete markers, at least one download succeeds whenever something is downloaded (statement's condition)",
    "the botocore client is created for real once per worker (offline); afterwards S3VersionUtil.__init__ runs unchanged but its get_session() hands back that same client (0.1 s per construction otherwise); .s3_client and .manager are then replaced by the scripted fakes",
    "the number of list calls is reported in the labels (list_calls_minus_minimal:*), not asserted; only termination within n+3 calls is required",
    "row order of the returned frame and the order among versions with equal timestamps are not asserted (statement: 'newest first', 'each once')",
    "VersionedDataHandler receives ISO strings with an explicit UTC offset (+00:00, -05:00, +09:30 or +01:00, chosen per case; naive strings would be read in the machine's local zone, which the statement does not fix)",
]
FLOOR = {"quick": 250, "thorough": 3000}  # a quarter of the smallest value seen (quick 1084 over seeds 1-3, thorough 13544)

BUCKET = "verif-bucket"
KEY = "root-dev/2099-01-05_XX_G/results/G/county/current.csv"
ELECTION_ID = "2099-01-05_XX_G"  # none of the special-cased election ids
OFFICE = "G"
GEO = "county"
ZONES = ("America/New_York", "UTC")
EPOCH = datetime(1970, 1, 1, tzinfo=timezone.utc)


def _ms(y, mo, d, h, mi):
    return int((datetime(y, mo, d, h, mi, tzinfo=timezone.utc) - EPOCH).total_seconds() * 1000)


# newest timestamps just after a change of the New York UTC offset (histories reach back across it), and two ordinary nights
BASES = (_ms(2024, 11, 3, 6, 40), _ms(2025, 3, 9, 7, 20), _ms(2024, 11, 6, 2, 0), _ms(2020, 11, 4, 5, 30) + 123)
GAPS_STRICT = (2, 2, 1000, 61_000, 1_800_000, 3_600_000, 7_200_000)
GAPS_TIES = (0, 0, 0, 2, 1000, 61_000, 1_800_000, 3_600_000)


# ------------------------------------------------------------------------------------------------------------
# scripted service
# ------------------------------------------------------------------------------------------------------------
class HarnessBug(BaseException):
    """Raised for a defect of the fake itself; deliberately not an Exception so the code under test cannot swallow it."""


class FakeRunaway(Exception):
    """The listing was asked for more pages than a terminating client can need."""


def _guard(fn):
    def wrapped(*a, **k):
        try:
            return fn(*a, **k)
        except (FakeRunaway, HarnessBug):
            raise
        except Exception as e:
            if getattr(e, "_scripted", False):
                raise
            raise HarnessBug(f"fake failed in {fn.__name__}: {type(e).__name__}: {e}") from e

    return wrapped


def _client_error(code, msg, op):
    from botocore.exceptions import ClientError

    e = ClientError({"Error": {"Code": code, "Message": msg}, "ResponseMetadata": {"HTTPStatusCode": 400}}, op)
    e._scripted = True
    return e


def _scripted(exc):
    exc._scripted = True
    return exc


@functools.lru_cache(maxsize=None)
def vid(i):
    return hashlib.sha1(f"version-{i}".encode()).hexdigest()[:24]


def dt(ms):
    from dateutil.tz import tzutc  # what botocore puts on LastModified

    return (EPOCH + timedelta(milliseconds=ms)).astimezone(tzutc())


def n_rows(i):
    return 1 + (i * 7) % 3


def row_values(i, j):
    dem = 100 + 3 * i + j
    gop = 90 + 2 * i + 2 * j
    return (f"{(i * 13 + j) % 100:02d}{j:03d}", dem, gop, dem + gop + 5)


@functools.lru_cache(maxsize=None)
def body(i, fmt):
    cols = "geographic_unit_fips,dem,gop,total,vid,vrow" if fmt == "short" else "geographic_unit_fips,results_dem,results_gop,results_turnout,vid,vrow"
    lines = [cols]
    for j in range(n_rows(i)):
        f, d, g, t = row_values(i, j)
        lines.append(f"{f},{d},{g},{t},{vid(i)},{j}")
    return ("\n".join(lines) + "\n").encode()


def page_sizes(case):
    p = case["page"]
    return list(p) if isinstance(p, list) else [p]


def chunks(n, sizes):
    """Index ranges of the pages a client sees when it follows the markers from the top."""
    out, s, c = [], 0, 0
    while s < n:
        k = sizes[c % len(sizes)]
        out.append((s, min(n, s + k)))
        s += k
        c += 1
    return out


class FakeS3:
    def __init__(self, bucket, key, ts, sizes, fmt):
        self.bucket = bucket
        self.key = key
        self.entries = [
            {
                "Key": key,
                "VersionId": vid(i),
                "LastModified": dt(t),
                "Size": len(body(i, fmt)),
                "ETag": '"%s"' % hashlib.md5(body(i, fmt)).hexdigest(),
                "IsLatest": i == 0,
                "StorageClass": "STANDARD",
            }
            for i, t in enumerate(ts)
        ]
        self.index = {e["VersionId"]: i for i, e in enumerate(self.entries)}
        self.sizes = sizes
        self.calls = 0
        self.limit = len(ts) + 3

    @_guard
    def list_object_versions(self, **kw):
        self.calls += 1
        if self.calls > self.limit:
            raise FakeRunaway(f"{self.calls} list calls for {len(self.entries)} versions")
        unknown = set(kw) - {"Bucket", "Prefix", "KeyMarker", "VersionIdMarker", "MaxKeys"}
        if unknown or "Bucket" not in kw:
            raise _scripted(TypeError(f"ParamValidationError: parameters {sorted(kw)}"))
        if kw["Bucket"] != self.bucket:
            raise _client_error("NoSuchBucket", "The specified bucket does not exist", "ListObjectVersions")
        prefix = kw.get("Prefix") or ""
        km, vm = kw.get("KeyMarker"), kw.get("VersionIdMarker")
        if vm is not None and km is None:
            raise _client_error("InvalidArgument", "A version-id marker cannot be specified without a key marker.", "ListObjectVersions")
        n = len(self.entries)
        if not self.key.startswith(prefix):
            s = n
        elif km is None:
            s = 0
        elif km == self.key:
            if vm is None:
                s = n  # only keys strictly after the marker
            elif vm in self.index:
                s = self.index[vm] + 1
            else:
                raise _client_error("InvalidArgument", "Invalid version id specified", "ListObjectVersions")
        elif self.key > km:
            s = 0
        else:
            s = n
        k = self.sizes[(self.calls - 1) % len(self.sizes)]
        if kw.get("MaxKeys") is not None:
            k = max(0, min(k, int(kw["MaxKeys"])))
        page = [dict(e) for e in self.entries[s : s + k]]
        resp = {"ResponseMetadata": {"HTTPStatusCode": 200}, "Name": self.bucket, "Prefix": prefix, "MaxKeys": k}
        resp["IsTruncated"] = s + k < n
        if km is not None:
            resp["KeyMarker"] = km
        if vm is not None:
            resp["VersionIdMarker"] = vm
        if page:
            resp["Versions"] = page
        if resp["IsTruncated"] and page:
            resp["NextKeyMarker"] = page[-1]["Key"]
            resp["NextVersionIdMarker"] = page[-1]["VersionId"]
        return resp


FAULTS = ("client_error", "os_error", "retries", "cancelled")


class _Meta:
    def __init__(self):
        self.size = None

    def provide_transfer_size(self, size):
        self.size = size


class FakeFuture:
    def __init__(self, payload, fileobj, fault):
        self.meta = _Meta()
        self._payload = payload
        self._fileobj = fileobj
        self._fault = fault
        self._state = None
        self.awaited = 0

    def done(self):
        return self._state is not None

    def cancel(self):
        pass

    def _make_fault(self):
        if self._fault == "client_error":
            return _client_error("SlowDown", "Please reduce your request rate.", "GetObject")
        if self._fault == "os_error":
            return _scripted(ConnectionResetError("Connection reset by peer"))
        if self._fault == "retries":
            from s3transfer.exceptions import RetriesExceededError

            return _scripted(RetriesExceededError(IOError("incomplete read")))
        if self._fault == "cancelled":
            from s3transfer.exceptions import CancelledError

            return _scripted(CancelledError("transfer cancelled"))
        if self._fault == "no_such_version":
            return _client_error("NoSuchVersion", "The specified version does not exist.", "GetObject")
        if self._fault == "no_such_key":
            return _client_error("NoSuchKey", "The specified key does not exist.", "GetObject")
        raise HarnessBug(f"unknown fault {self._fault}")

    @_guard
    def result(self):
        self.awaited += 1
        if self._state is None:
            # the transfer completes at the latest possible moment: when somebody waits for it
            if self._fault is None:
                data = self._payload
                if self.meta.size is not None:
                    data = data[: self.meta.size]
                self._fileobj.write(data)
                self._state = "ok"
            else:
                if self._payload:
                    self._fileobj.write(self._payload[: len(self._payload) // 2])
                self._state = self._make_fault()
        if self._state == "ok":
            return None
        raise self._state


class FakeManager:
    def __init__(self, bucket, key, n, fmt, fail):
        self.bucket = bucket
        self.key = key
        self.n = n
        self.fmt = fmt
        self.fail = set(fail)
        self.by_vid = {vid(i): i for i in range(n)}
        self.requests = []  # version index (or a string for a request the service cannot serve)
        self.futures = []

    @_guard
    def download(self, bucket, key, fileobj, extra_args=None, subscribers=None):
        extra_args = dict(extra_args or {})
        unknown = set(extra_args) - {"VersionId"}
        if unknown:
            raise _scripted(ValueError(f"Invalid extra_args key(s) {sorted(unknown)}"))
        payload, fault = b"", None
        if bucket != self.bucket or key != self.key:
            fault, who = "no_such_key", f"key:{bucket}/{key}"
        elif "VersionId" not in extra_args:
            if self.n == 0:
                fault, who = "no_such_key", "latest-of-nothing"
            else:
                who = 0
        elif extra_args["VersionId"] in self.by_vid:
            who = self.by_vid[extra_args["VersionId"]]
        else:
            fault, who = "no_such_version", f"version:{extra_args['VersionId']}"
        if isinstance(who, int):
            payload = body(who, self.fmt)
            if who in self.fail:
                fault = FAULTS[who % len(FAULTS)]
        fut = FakeFuture(payload, fileobj, fault)
        for sub in subscribers or []:
            sub.on_queued(future=fut)
        self.requests.append(who)
        self.futures.append(fut)
        return fut

    def shutdown(self, *a, **k):
        pass


# ------------------------------------------------------------------------------------------------------------
# code under test: construction
# ------------------------------------------------------------------------------------------------------------
_ENV = {}


def _setup():
    if _ENV:
        return _ENV
    from elexmodel.handlers import s3 as s3mod
    from elexmodel.handlers.data import VersionedData as vdmod
    from elexmodel.utils import file_utils

    import logging

    logging.getLogger("elexmodel").setLevel(logging.CRITICAL)  # the skipped downloads are logged at ERROR: keep the run quiet
    probe = s3mod.S3VersionUtil("probe-bucket")  # completely real, offline
    real_client = probe.s3_client
    if not hasattr(real_client, "list_object_versions") or not hasattr(probe.manager, "download"):
        raise HarnessBug("S3VersionUtil no longer exposes the s3_client/manager seam")

    class _CachedSession:
        def create_client(self, name, *a, **k):
            if name != "s3":
                raise HarnessBug(f"unexpected client {name}")
            return real_client

    s3mod.get_session = lambda *a, **k: _CachedSession()
    _ENV.update(
        s3=s3mod,
        vd=vdmod,
        handler_bucket=file_utils.TARGET_BUCKET,
        handler_key=f"{file_utils.S3_FILE_PATH}/{ELECTION_ID}/results/{OFFICE}/{GEO}/current.csv",
    )
    return _ENV


def _bound_dt(ms):
    from dateutil import tz as dtz

    return None if ms is None else (EPOCH + timedelta(milliseconds=ms)).astimezone(dtz.gettz("UTC"))


ISO_OFFSETS_MIN = [0, -300, 570, 60]  # the same instant written with different UTC offsets (+00:00, -05:00, +09:30, +01:00)


def _iso(ms, offset_min=0):
    if ms is None:
        return None
    from datetime import timezone

    return (EPOCH + timedelta(milliseconds=ms)).astimezone(timezone(timedelta(minutes=offset_min))).isoformat()


# ------------------------------------------------------------------------------------------------------------
# oracle
# ------------------------------------------------------------------------------------------------------------
def window(ts, start, end):
    return [i for i, t in enumerate(ts) if (start is None or t >= start) and (end is None or t <= end)]


def bound_kind(b, ts):
    if b is None:
        return "none"
    if not ts:
        return "novers"
    if b < min(ts):
        return "before"
    if b > max(ts):
        return "after"
    return "on" if b in ts else "between"


def cuts_page(n, sizes, inside):
    ins = set(inside)
    for a, b in chunks(n, sizes):
        k = sum(1 for i in range(a, b) if i in ins)
        if 0 < k < b - a:
            return True
    return False


def minimal_calls(ts, sizes, start):
    n = len(ts)
    ch = chunks(n, sizes)
    if not ch:
        return 1
    if start is not None:
        for c, (a, b) in enumerate(ch):
            if ts[b - 1] < start:
                return c + 1
    return len(ch)


def expected_offset(ms, zone):
    return (EPOCH + timedelta(milliseconds=ms)).astimezone(ZoneInfo(zone)).utcoffset()


def describe(case):
    return (
        f"n={len(case['ts'])} page={case['page']} start={case['start']} end={case['end']} sample={case.get('sample')} "
        f"fail={case.get('fail')} tz={case.get('tz')} ts={case['ts']}"
    )


def validate(case):
    ts = case["ts"]
    if any(a < b for a, b in zip(ts, ts[1:])):
        raise ValueError("case timestamps must be newest first")
    if any(p < 1 for p in page_sizes(case)):
        raise ValueError("page sizes must be positive")


# ------------------------------------------------------------------------------------------------------------
# the check
# ------------------------------------------------------------------------------------------------------------
def _build(env, case, bucket, key, via_handler):
    ts, sizes, fmt = case["ts"], page_sizes(case), case.get("fmt", "short")
    svc = FakeS3(bucket, key, ts, sizes, fmt)
    mgr = FakeManager(bucket, key, len(ts), fmt, case.get("fail", []))
    zone = case.get("tz", "America/New_York")
    if via_handler:
        # the window strings carry an explicit offset; which offset the instant is written with must not matter
        off_s = ISO_OFFSETS_MIN[(len(ts) + case.get("sample", 2)) % len(ISO_OFFSETS_MIN)]
        off_e = ISO_OFFSETS_MIN[(len(ts) + 2 * case.get("sample", 2) + 1) % len(ISO_OFFSETS_MIN)]
        obj = env["vd"].VersionedDataHandler(
            ELECTION_ID, OFFICE, GEO, ["margin"], start_date=_iso(case["start"], off_s), end_date=_iso(case["end"], off_e), sample=case.get("sample", 2), tzinfo=zone
        )
        util = obj.s3_client
    else:
        obj = util = env["s3"].S3VersionUtil(bucket, _bound_dt(case["start"]), _bound_dt(case["end"]), zone)
    util.s3_client = svc
    util.manager = mgr
    return obj, svc, mgr


def _check_listing(case, ctx, got, exp, what):
    """`got`: what list_versions returned; `exp`: reference indices. Returns the listed indices or None."""
    ts = case["ts"]
    by = {vid(i): i for i in range(len(ts))}
    if not isinstance(got, list):
        ctx.violation("listing_type", f"{what}: list_versions returned {type(got).__name__}; {describe(case)}", case, sig="listing_type")
        return None
    idx = []
    for v in got:
        i = by.get(v.get("VersionId")) if isinstance(v, dict) else None
        if i is None or v.get("LastModified") != dt(ts[i]) or v.get("Key") is None:
            ctx.violation("listing_foreign_entry", f"{what}: entry {v!r} is not a stored version; {describe(case)}", case, sig="listing_foreign_entry")
            return None
        idx.append(i)
    if sorted(idx) != exp:
        missing = sorted(set(exp) - set(idx))
        extra = sorted(set(idx) - set(exp))
        dup = sorted({i for i in idx if idx.count(i) > 1})
        kind = "listing_duplicate" if dup and not missing and not extra else ("listing_missing" if missing and not extra else ("listing_outside_window" if extra and not missing else "listing_set"))
        ctx.violation(kind, f"{what}: listed {idx} expected {exp} (missing {missing}, outside window {extra}, duplicated {dup}); {describe(case)}", case, sig=kind)
        return None
    if any(ts[a] < ts[b] for a, b in zip(idx, idx[1:])):
        ctx.violation("listing_order", f"{what}: listed {idx} is not newest first; {describe(case)}", case, sig="listing_order")
        return None
    return idx


def _frame_rows(df, case, ctx, what):
    """-> sorted list of (version index, row number, fips, dem, gop, total, instant ms, offset seconds) or None."""
    import pandas as pd

    fmt = case.get("fmt", "short")
    cols = ("dem", "gop", "total") if fmt == "short" else ("results_dem", "results_gop", "results_turnout")
    need = ["vid", "vrow", "geographic_unit_fips", "last_modified", *cols]
    miss = [c for c in need if c not in df.columns]
    if miss:
        ctx.violation("frame_columns", f"{what}: columns {miss} missing from {list(df.columns)}; {describe(case)}", case, sig="frame_columns")
        return None
    by = {vid(i): i for i in range(len(case["ts"]))}
    rows = []
    for r in df[need].itertuples(index=False, name=None):
        v, j, fips, lm, d, g, t = r
        if not isinstance(lm, pd.Timestamp) or lm.tzinfo is None or lm.utcoffset() is None:
            ctx.violation("timestamp_not_zoned", f"{what}: last_modified {lm!r} carries no zone; {describe(case)}", case, sig="timestamp_not_zoned")
            return None
        q, rem = divmod(int(lm.value), 10**6)  # ns -> ms without going through a 64-bit float
        rows.append((by.get(v, -1), int(j), str(fips), float(d), float(g), float(t), float(q) + rem / 1e6, lm.utcoffset().total_seconds()))
    return sorted(rows)


def _expected_rows(case, ok_versions):
    zone = case.get("tz", "America/New_York")
    rows = []
    for i in ok_versions:
        off = expected_offset(case["ts"][i], zone).total_seconds()
        for j in range(n_rows(i)):
            f, d, g, t = row_values(i, j)
            rows.append((i, j, f, float(d), float(g), float(t), float(case["ts"][i]), off))
    return sorted(rows)


def _check_get(case, ctx, env, listed, via_handler):
    """Runs get() (or the handler's get_versioned_results) and compares with the reference built from `listed`."""
    what = "VersionedDataHandler.get_versioned_results" if via_handler else "S3VersionUtil.get"
    bucket, key = (env["handler_bucket"], env["handler_key"]) if via_handler else (BUCKET, KEY)
    sample = case["sample"]
    obj, svc, mgr = _build(env, case, bucket, key, via_handler)
    try:
        df = obj.get_versioned_results() if via_handler else obj.get(key, sample)
    except FakeRunaway as e:
        ctx.violation("listing_no_termination", f"{what}: {e}; {describe(case)}", case, sig="listing_no_termination")
        return False
    except Exception as e:
        ctx.violation("get_exception", f"{what}: {type(e).__name__}: {e}; {describe(case)}", case, sig=exc_signature(e))
        return False
    if not listed:
        if df is not None:
            ctx.violation("empty_window_not_none", f"{what} returned {type(df).__name__} for an empty window; {describe(case)}", case, sig="empty_window_not_none" + ("_handler" if via_handler else ""))
            return False
        if via_handler and getattr(obj, "data", "unset") is not None:
            ctx.label("handler_data_attribute_not_none")
        return True
    want = listed[::sample]
    ok = [i for i in want if i not in set(case["fail"])]
    if df is None:
        ctx.violation("none_for_nonempty_window", f"{what} returned None although versions {listed} are in the window; {describe(case)}", case, sig="none_for_nonempty_window")
        return False
    if sorted(map(str, mgr.requests)) != sorted(map(str, want)):
        ctx.violation("download_set", f"{what}: downloads requested for {mgr.requests}, every {sample}-th of listed {listed} is {want}; {describe(case)}", case, sig="download_set")
        return False
    rows = _frame_rows(df, case, ctx, what)
    if rows is None:
        return False
    exp_rows = _expected_rows(case, ok)
    if rows != exp_rows:
        got_v = sorted({r[0] for r in rows})
        if got_v != sorted(ok):
            kind = "rows_versions"
            detail = f"rows of versions {got_v}, expected the successful downloads {sorted(ok)} (requested {want}, failing {sorted(set(want) - set(ok))})"
        elif [r[:6] for r in rows] != [r[:6] for r in exp_rows]:
            kind = "rows_content"
            detail = f"row values differ: first got {rows[:2]} expected {exp_rows[:2]}"
        else:
            bad = next((a, b) for a, b in zip(rows, exp_rows) if a != b)
            kind = "row_timestamp_instant" if bad[0][6] != bad[1][6] else "row_timestamp_zone"
            detail = f"version {bad[0][0]} row {bad[0][1]} stamped (ms={bad[0][6]}, utcoffset={bad[0][7]}s), its own version is (ms={bad[1][6]}, utcoffset={bad[1][7]}s)"
        ctx.violation(kind, f"{what}: {detail}; {describe(case)}", case, sig=kind)
        return False
    never = [f for f in mgr.futures if f.awaited == 0]
    if never:
        ctx.label("futures_never_awaited", len(never))
    return True


def check_case(case, ctx):
    env = _setup()
    validate(case)
    ctx.evaluated()
    ts, sizes = case["ts"], page_sizes(case)
    n = len(ts)
    mode = case.get("mode", "full")
    exp = window(ts, case["start"], case["end"])

    # ---- listing ----------------------------------------------------------------------------------------
    util, svc, _ = _build(env, case, BUCKET, KEY, False)
    try:
        got = util.list_versions(KEY)
    except FakeRunaway as e:
        ctx.violation("listing_no_termination", f"list_versions: {e}; {describe(case)}", case, sig="listing_no_termination")
        return
    except Exception as e:
        ctx.violation("list_exception", f"list_versions: {type(e).__name__}: {e}; {describe(case)}", case, sig=exc_signature(e))
        return
    listed = _check_listing(case, ctx, got, exp, "S3VersionUtil.list_versions")
    if listed is None:
        return
    ctx.label(f"list_calls_minus_minimal:{svc.calls - minimal_calls(ts, sizes, case['start'])}")
    sk, ek = bound_kind(case["start"], ts), bound_kind(case["end"], ts)
    cut = cuts_page(n, sizes, exp)
    two_pages = len(chunks(n, sizes)) >= 2
    pg = sizes[0] if len(sizes) == 1 else "var"
    if mode == "list":
        if cut and two_pages:
            smp = None
            if _LIST_SAMPLES and n >= 6 and sk == "on" and ek == "between":
                _LIST_SAMPLES.pop()
                smp = {"part": "exh_list", "ts_minus_newest": [t - ts[0] for t in ts], "page": pg, "start": sk, "end": ek, "listed": len(exp), "list_calls": svc.calls}
            ctx.nontrivial(f"list|{n}|{pg}|{sk}|{ek}", smp)
        return

    # ---- retrieval --------------------------------------------------------------------------------------
    sample = case["sample"]
    want = listed[::sample]
    failing = [i for i in want if i in set(case["fail"])]
    ctx.label("window:" + ("empty" if not listed else "nonempty"))
    ctx.label(f"start:{sk}")
    ctx.label(f"end:{ek}")
    ctx.label("zone:" + case["tz"])
    if want and len(failing) == len(want):
        ctx.label("out_of_domain:all_downloads_fail")
        return
    good = _check_get(case, ctx, env, listed, False)
    if good and (not listed or case.get("handler")):
        ctx.label("handler:" + ("empty" if not listed else "nonempty"))
        # the handler converts ISO strings itself; its listing must be the same window
        hobj, _, _ = _build(env, case, env["handler_bucket"], env["handler_key"], True)
        try:
            hgot = hobj.s3_client.list_versions(env["handler_key"])
        except Exception as e:
            ctx.violation("list_exception", f"handler list_versions: {type(e).__name__}: {e}; {describe(case)}", case, sig=exc_signature(e))
            return
        if _check_listing(case, ctx, hgot, exp, "VersionedDataHandler's list_versions") is None:
            return
        good = _check_get(case, ctx, env, listed, True)
    if not good:
        return
    ctx.label("pages:" + ("1" if not two_pages else ">=2"))
    if cut:
        ctx.label("window_cuts_page")
    if failing:
        ctx.label("downloads:some_fail")
    elif want:
        ctx.label("downloads:all_ok")
    if (cut and two_pages) or (failing and len(failing) < len(want)):
        ctx.nontrivial(
            f"full|{n}|{pg}|{sk}|{ek}|{int(cut)}|{sample}|{int(bool(failing))}",
            None
            if _NO_FULL_SAMPLES
            else {"n": n, "page": case["page"], "start": sk, "end": ek, "cuts_page": cut, "sample": sample, "listed": len(listed), "downloads": len(want), "failing": len(failing), "tz": case["tz"], "list_calls": svc.calls},
        )


# ------------------------------------------------------------------------------------------------------------
# exhaustive sub-spaces
# ------------------------------------------------------------------------------------------------------------
_NO_FULL_SAMPLES = []  # non-empty while the enumerated fault cases run (evidence samples come from the generated part)
_LIST_SAMPLES = []  # how many exhaustive listings may still be stored as evidence samples (shard 0 only)


def exh_dims(tier):
    return (8, 4) if tier == "quick" else (9, 5)


def exh_histories(max_n):
    """(n, tie pattern) -> timestamps; a 0 bit is a tie with the previous version, a 1 bit a 2 ms step."""
    out = []
    for n in range(max_n + 1):
        for bits in itertools.product((0, 1), repeat=max(n - 1, 0)):
            ts = [BASES[0]] if n else []
            for b in bits:
                ts.append(ts[-1] - 2 * b)
            out.append(ts)
    return out


def cut_positions(ts):
    if not ts:
        return [None, BASES[0]]
    d = sorted(set(ts))
    pos = [None, d[0] - 1]
    for a, b in zip(d, d[1:]):
        pos += [a, a + 1]
        if b - a < 2:
            raise ValueError("exhaustive histories need room between distinct timestamps")
    pos += [d[-1], d[-1] + 1]
    return pos


def run_exh_list(tier, ctx, si, sc):
    max_n, max_p = exh_dims(tier)
    hist = exh_histories(max_n)
    count = 0
    if si == 0:
        _LIST_SAMPLES.append(1)
    for ts in hist[si::sc]:
        pos = cut_positions(ts)
        for p in range(1, max_p + 1):
            for s in pos:
                for e in pos:
                    check_case({"mode": "list", "ts": ts, "page": p, "start": s, "end": e}, ctx)
                    count += 1
    ctx.extra["cov_exhaustive_listings"] = count
    ctx.extra["cov_exhaustive_subspace"] = (
        f"list_versions: every history of n<={max_n} versions x every tie pattern of adjacent timestamps ({len(hist)} histories) x page size 1..{max_p} "
        "x every (start, end) in {None, before all, on each distinct timestamp, between each adjacent pair, after all}^2 (count in exhaustive_listings); "
        "get: n<=5, page 2, sample 1..3, open / page-cutting window, both zones, every failing subset of the downloads leaving one success (count in exhaustive_fault_cases)"
    )


def exh_fault_cases(tier):
    max_n = 5 if tier == "quick" else 7
    out = []
    for n in range(1, max_n + 1):
        ts = [BASES[0] - 1_500_000 * i for i in range(n)]  # crosses the New York offset change after two versions
        for sample in (1, 2, 3):
            for start, end in ((None, None), (ts[-1] + 1 if n > 1 else None, ts[1] if n > 2 else None)):
                want = window(ts, start, end)[::sample]
                for k in range(len(want)):
                    for fail in itertools.combinations(want, k):
                        for zone in ZONES:
                            out.append({"mode": "full", "ts": ts, "page": 2, "start": start, "end": end, "sample": sample, "fail": list(fail), "tz": zone, "fmt": "short", "handler": k == 0})
    return out


def run_exh_fault(tier, ctx, si, sc):
    mine = exh_fault_cases(tier)[si::sc]
    for k, case in enumerate(mine):
        if k == 1 or si != 0:
            _NO_FULL_SAMPLES.append(1)
        check_case(case, ctx)
    del _NO_FULL_SAMPLES[:]
    ctx.extra["cov_exhaustive_fault_cases"] = len(mine)


# ------------------------------------------------------------------------------------------------------------
# generated space
# ------------------------------------------------------------------------------------------------------------
# weights keep about a quarter of the generated windows empty (start after all / end before all / start > end)
BOUND_KINDS = {
    "start": ("none", "none", "before", "before", "after", "on", "on", "on", "between", "between", "cut", "cut", "cut"),
    "end": ("none", "none", "before", "after", "after", "on", "on", "on", "between", "between", "cut", "cut", "cut"),
}


@st.composite
def _bound(draw, ts, sizes, which):
    kind = draw(st.sampled_from(BOUND_KINDS[which]))
    n = len(ts)
    if kind == "none":
        return None
    if n == 0:
        return BASES[0] + draw(st.sampled_from((-1000, 0, 1000)))
    far = draw(st.sampled_from((1, 1000, 86_400_000)))
    if kind == "before":
        return min(ts) - far
    if kind == "after":
        return max(ts) + far
    if kind == "between":
        gaps = [i for i in range(n - 1) if ts[i] - ts[i + 1] >= 2]
        if gaps:
            i = draw(st.sampled_from(gaps))
            return ts[i + 1] + draw(st.sampled_from((1, (ts[i] - ts[i + 1]) // 2, ts[i] - ts[i + 1] - 1)))
        kind = "on"
    if kind == "cut":
        starts = {a for a, _ in chunks(n, sizes)}
        inner = [i for i in range(1, n) if i not in starts]
        if inner:
            i = draw(st.sampled_from(inner))
            # the edge lies between version i-1 and version i, both on one page
            return ts[i - 1] if which == "start" else ts[i]
        kind = "on"
    return ts[draw(st.integers(0, n - 1))]


@st.composite
def _case(draw, max_n=40):
    n = draw(st.integers(0, max_n))
    if draw(st.integers(0, 3)) == 0:
        sizes = draw(st.lists(st.integers(1, 12), min_size=2, max_size=4))
    else:
        sizes = [draw(st.integers(1, 12))]
    ties = draw(st.booleans())
    gaps = draw(st.lists(st.sampled_from(GAPS_TIES if ties else GAPS_STRICT), min_size=max(n - 1, 0), max_size=max(n - 1, 0)))
    ts = [draw(st.sampled_from(BASES))] if n else []
    for g in gaps:
        ts.append(ts[-1] - g)
    start = draw(_bound(ts, sizes, "start"))
    end = draw(_bound(ts, sizes, "end"))
    if start is not None and end is not None and start > end and draw(st.integers(0, 3)) != 0:
        start, end = end, start
    sample = draw(st.integers(1, 5))
    want = window(ts, start, end)[::sample]
    fmode = draw(st.sampled_from(("none", "any", "downloads", "downloads", "all_but_one")))
    if fmode == "none" or n == 0:
        fail = []
    elif fmode == "any":
        fail = draw(st.lists(st.integers(0, n - 1), unique=True, max_size=n))
    elif fmode == "downloads":
        fail = [i for i in want if draw(st.booleans())]
    else:
        fail = list(want)
    if want and set(want) <= set(fail):
        fail.remove(draw(st.sampled_from(want)))  # the statement conditions on one success
    return {
        "mode": "full",
        "ts": ts,
        "page": sizes if len(sizes) > 1 else sizes[0],
        "start": start,
        "end": end,
        "sample": sample,
        "fail": sorted(fail),
        "tz": draw(st.sampled_from(ZONES)),
        "fmt": draw(st.sampled_from(("short", "short", "results"))),
        "handler": draw(st.integers(0, 3)) == 0,
    }


STRATEGY = _case()


def parts(tier):
    max_n, _ = exh_dims(tier)
    return [
        {"name": "exh_list", "n": len(exh_histories(max_n))},
        {"name": "exh_fault", "n": 16},
        {"name": "gen", "n": 5000 if tier == "quick" else 100000},
    ]


def run_part(name, seed, n, tier, ctx, si, sc):
    if name == "exh_list":
        run_exh_list(tier, ctx, si, sc)
    elif name == "exh_fault":
        run_exh_fault(tier, ctx, si, sc)
    else:
        hyp_run(STRATEGY, lambda case: check_case(case, ctx), seed, n, tier)


def replay(case, ctx):
    check_case(case, ctx)


def facts(case):
    ts = case["ts"]
    return {
        "mode": case.get("mode", "full"),
        "n": len(ts),
        "page": case["page"] if not isinstance(case["page"], list) else "var",
        "sample": case.get("sample"),
        "any_fail": bool(case.get("fail")),
        "tz": case.get("tz"),
        "start": bound_kind(case["start"], ts),
        "end": bound_kind(case["end"], ts),
        "ties": len(set(ts)) < len(ts),
    }


def _drop(case, lo, hi):
    c = dict(case)
    c["ts"] = case["ts"][:lo] + case["ts"][hi:]
    k = hi - lo
    c["fail"] = sorted((i if i < lo else i - k) for i in case.get("fail", []) if not lo <= i < hi)
    return c


def shrink_candidates(case):
    n = len(case["ts"])
    if case.get("fail"):
        yield dict(case, fail=[])
    if case.get("handler"):
        yield dict(case, handler=False)
    if n >= 4:
        yield _drop(case, n // 2, n)
        yield _drop(case, 0, n // 2)
    if isinstance(case["page"], list):
        yield dict(case, page=case["page"][0])
    elif case["page"] > 1:
        yield dict(case, page=1)
        yield dict(case, page=case["page"] - 1)
    for i in reversed(range(n)):
        yield _drop(case, i, i + 1)
    if case.get("sample", 1) > 1:
        yield dict(case, sample=1)
    if case["start"] is not None:
        yield dict(case, start=None)
    if case["end"] is not None:
        yield dict(case, end=None)
    if case.get("tz") != "UTC":
        yield dict(case, tz="UTC")
    for i in sorted(case.get("fail", [])):
        yield dict(case, fail=[j for j in case["fail"] if j != i])
