"""C10 - outstanding and excluded units cannot influence anyone else's estimate."""
from __future__ import annotations

import copy

import numpy as np

from vf import gen, hist, ref
from vf.drive import AGG_TABLE, level_keys, run_case
from vf.props import common
from vf.props.c11 import rows_by_key, same
from vf.runner import exc_signature, hyp_run

ID = "C10"
LEVEL = "exploration"
RULE = (
    "Metamorphic pairs differing in exactly one unit's counts: a below-threshold unit (pev unchanged, so it stays "
    "below), a unit- or state-blocklisted unit, a zero-baseline unit, or an unexpected unit; replacement counts from "
    "{0, x0.1, x40, +1}; three estimators; outlier models on (with >20 reporting units) and off; with/without "
    "features and fixed effects; a quarter of the pairs perturb a unit of a blocklisted STATE with outlier models on, a "
    "sixth a below-threshold unit of a high-turnout bootstrap election (x40). Oracle on canonicalised tables: every other unit row bit-identical (incl. category); "
    "every aggregate row of a group not containing the unit bit-identical; in groups containing it `reporting` is "
    "unchanged and, for vote counts, pred changes exactly by the change of the unit's own pred (nonparametric: lower/"
    "upper likewise). A further part runs the same oracle on county-level bootstrap elections with the margin extrapolation on (generated version histories; the perturbation moves votes between the parties of an outstanding county that is far along). Historical clause: get_historical_evaluation driven offline from a temp cwd, run twice with the "
    "historical results of not-yet-reporting units changed: estimates tables bit-identical and the hidden units carry 0 "
    "counted votes. Non-trivial: both runs complete, the perturbed unit's own row changed, >=1 other nonreporting unit. "
    "Distinct = (estimator, office, kind of perturbed unit, replacement, outliers on/off, fe/features on/off)."
)
ASSUMPTIONS = [
    "bitwise comparison after casting numeric columns to float64; perturbing values does not change matrix shapes",
    "historical clause is exercised with vote-count estimands and the nonparametric/gaussian estimators (the historical client cannot run the margin estimand: its feed lacks results_normalized_margin)",
]
FLOOR = {"quick": 20, "thorough": 120}


def parts(tier):
    if tier == "quick":
        return [{"name": "pairs", "n": 384}, {"name": "extrap", "n": 64}, {"name": "historical", "n": 64}]
    return [{"name": "pairs", "n": 4000}, {"name": "extrap", "n": 600}, {"name": "historical", "n": 480}]


KINDS = {
    "below_threshold": (gen.N, gen.NH, gen.N0),
    "blocklisted": (gen.B, gen.BN, gen.BZ, gen.BZN),
    "zero_baseline": (gen.Z, gen.ZN),
}


@gen.st.composite
def _strategy(draw):
    st = gen.st
    big = draw(st.booleans())
    # a quarter of the pairs: a whole state is blocklisted, outlier models are on, and the perturbed unit is one of
    # that state's units at or above the threshold (its counts must not move the outlier thresholds of the others)
    state_mode = draw(st.integers(0, 2)) == 0
    if state_mode:
        big = True
    # a sixth of the pairs: a high-turnout bootstrap election in which no outstanding unit has counted more than its
    # baseline yet; the perturbed below-threshold unit then jumps to 40x (its own clip bounds may move, nobody else's)
    surge_mode = (not state_mode) and draw(st.integers(0, 4)) == 0
    if surge_mode:
        case = draw(
            gen.election_case(
                thresholds=(100, 100, 90, 75, 50),  # a unit 'below the threshold' needs a threshold above 0
                estimators=("bootstrap",),
                min_nonrep=4,
                slack=(0, 10),
                outliers=(False,),
                statuses=(gen.N, gen.N, gen.N0, gen.A, gen.B, gen.Z),
                turnout_surge=(0.33,),
                max_other=12,
                Bs=(20, 40),
            )
        )
        if "unit" not in case["req"]["aggregates"]:
            case["req"]["aggregates"] = case["req"]["aggregates"] + ["unit"]
        ids = [u["id"] for u in case["units"] if u["status"] == gen.N and u["feed"] is not None and u["feed"]["rd"] + u["feed"]["rg"] > 0]
        if ids:
            case["perturb"] = {"kind": "below_threshold", "id": ids[draw(st.integers(0, len(ids) - 1))], "repl": "x40"}
            return case
    # an eighth of the remaining pairs: a larger multi-state gaussian election (groups with their own calibration model
    # next to groups that fall back), perturbed unit below the threshold jumping x40 so that a misplaced floor would bind
    if not state_mode and not surge_mode and draw(st.integers(0, 7)) == 0:
        case = draw(
            gen.election_case(
                thresholds=(100, 100, 90, 75, 50),  # a unit 'below the threshold' needs a threshold above 0
                estimators=("gaussian",), min_nonrep=6, slack=(25, 80), max_other=24, min_states=2, max_counties=3, outliers=(False,), allow_fe=False,
                statuses=(gen.N, gen.N, gen.N, gen.N0, gen.A, gen.B, gen.Z),
            )
        )
        case["req"]["mp"].pop("winsorize", None)
        if "unit" not in case["req"]["aggregates"]:
            case["req"]["aggregates"] = case["req"]["aggregates"] + ["unit"]
        ids = [u["id"] for u in case["units"] if u["status"] == gen.N and u["feed"] is not None and u["feed"]["rd"] + u["feed"]["rg"] > 0]
        if ids:
            case["perturb"] = {"kind": "below_threshold", "id": ids[draw(st.integers(0, len(ids) - 1))], "repl": "x40"}
            return case
    case = draw(
        gen.election_case(
                thresholds=(100, 100, 90, 75, 50),  # a unit 'below the threshold' needs a threshold above 0
            min_nonrep=2,
            slack=(12, 22) if big else (0, 8),
            outliers=(True,) if big else (False,),
            min_states=2 if state_mode else 1,
            state_blocklist_odds=1 if state_mode else 8,
            max_other=24 if state_mode else 14,
            statuses=(gen.N, gen.N, gen.NH, gen.N0, gen.B, gen.BN, gen.Z, gen.ZN, gen.BZ, gen.BZN, gen.A, gen.T_HI),
        )
    )
    if "unit" not in case["req"]["aggregates"]:
        case["req"]["aggregates"] = case["req"]["aggregates"] + ["unit"]
    cands = []
    for kind, sts in KINDS.items():
        ids = [u["id"] for u in case["units"] if u["status"] in sts and u["feed"] is not None]
        if ids:
            cands.append((kind, ids))
    if case.get("extra"):
        cands.append(("unexpected", [e["id"] for e in case["extra"]]))
    # a state-blocklisted unit counts as blocklisted
    sb = case["req"]["mp"].get("postal_code_blocklist", [])
    ids = [u["id"] for u in case["units"] if u["st"] in sb and u["feed"] is not None]
    if ids:
        cands.append(("state_blocklisted", ids))
    if state_mode:
        thr = case["req"]["thr"]
        above_units = sorted(
            (u for u in case["units"] if u["st"] in sb and u["feed"] is not None and u["feed"]["pev"] >= thr), key=lambda u: -(u["bd"] + u["bg"] + u["bo"])
        )
        above = [u["id"] for u in above_units[:1]]  # the largest one: the outlier regressions are baseline-weighted
        if above:
            cands = [("state_blocklisted", above)]
            # one modelled unit of another state is a borderline turnout outlier (factor 1.75, inside the limits), so
            # that a shift of the outlier threshold would be visible as a change of its category
            for u in case["units"]:
                if u["status"] == gen.R and u["st"] not in sb and u["bd"] + u["bg"] >= 40:
                    u["feed"].update(rd=int(round(u["bd"] * 1.75)), rg=int(round(u["bg"] * 1.75)), ro=int(round(u["bo"] * 1.75)))
                    break
    kind, ids = cands[draw(st.integers(0, len(cands) - 1))]
    uid = ids[draw(st.integers(0, len(ids) - 1))]
    repl = draw(st.sampled_from(["zero", "x0.1", "x40", "+1"])) if not (state_mode and kind == "state_blocklisted") else draw(st.sampled_from(["x40", "x40", "zero"]))
    case["perturb"] = {"kind": kind, "id": uid, "repl": repl}
    return case


STRATEGY = _strategy()


@gen.st.composite
def _extrap_strategy(draw):
    """Pairs on county-level bootstrap elections run with the margin extrapolation (generated version histories, see
    C06's `extrap` part): the perturbed unit is an outstanding county, preferably one far along whose earlier versions
    were observed near another outstanding county's expected-vote level; `shift` moves votes between the parties and
    keeps the turnout, so the county's own history stays regular."""
    from vf.props.c06 import _extrap_strategy as base

    st = gen.st
    case = draw(base())
    if "unit" not in case["req"]["aggregates"]:
        case["req"]["aggregates"] = case["req"]["aggregates"] + ["unit"]
    below = [u for u in case["units"] if u["status"] in (gen.N, gen.NH) and u.get("feed") is not None and u["feed"]["pev"] > 0]
    if not below:
        below = [u for u in case["units"] if u.get("feed") is not None and u["feed"]["pev"] < 100]
    with_versions = {v["id"] for v in case["versions"]}
    pref = [u for u in below if u["id"] in with_versions and u["feed"]["pev"] >= 90] or below
    if not pref:
        pref = [u for u in case["units"] if u.get("feed") is not None]
    u = pref[draw(st.integers(0, len(pref) - 1))]
    case["perturb"] = {"kind": "below_threshold", "id": u["id"], "repl": draw(st.sampled_from(["shift", "shift", "+1", "zero"]))}
    return case


EXTRAP = _extrap_strategy()


def apply_repl(f, repl):
    g = dict(f)
    if repl == "shift":
        k = int(0.3 * f["rg"])
        g["rd"], g["rg"] = f["rd"] + k, f["rg"] - k
        return g
    for k in ("rd", "rg", "ro"):
        v = f[k]
        g[k] = {"zero": 0, "x0.1": int(v * 0.1), "x40": int(v * 40), "+1": v + 1}[repl]
    return g


def perturbed(case):
    A = {k: v for k, v in case.items() if k != "perturb"}
    B = copy.deepcopy(A)
    p = case["perturb"]
    if p["kind"] == "unexpected":
        for e in B["extra"]:
            if e["id"] == p["id"]:
                e.update(apply_repl(e, p["repl"]))
    else:
        for u in B["units"]:
            if u["id"] == p["id"]:
                u["feed"] = dict(u["feed"], **apply_repl(u["feed"], p["repl"]))
    return A, B


def check_case(case, ctx):
    ctx.evaluated()
    A, B = perturbed(case)
    p = case["perturb"]
    req = A["req"]
    pi, office = req["pi"], A["office"]
    ctx.label("pi:" + pi)
    ctx.label("kind:" + p["kind"])
    viol = lambda kind, detail, sig=None: ctx.violation(kind, detail, case, sig=sig or kind)  # noqa: E731
    # observe which units the outlier detection regressions are fitted on (their counts move the outlier thresholds
    # of everybody else, whatever the particular replacement count of this pair happens to do)
    import elexmodel.handlers.data.CombinedData as CD

    seen_in_outlier_model = []
    orig_fit = CD.CombinedDataHandler._fit_outlier_detection_model

    def recording_fit(self, reporting_units, response_variable, outlier_z_threshold):
        seen_in_outlier_model.append(set(reporting_units["geographic_unit_fips"]))
        return orig_fit(self, reporting_units, response_variable, outlier_z_threshold)

    CD.CombinedDataHandler._fit_outlier_detection_model = recording_fit
    try:
        ra = run_case(A)
    finally:
        CD.CombinedDataHandler._fit_outlier_detection_model = orig_fit
    rb = run_case(B)
    if seen_in_outlier_model:
        ctx.label("outlier_model_inputs_observed")
        excluded = {r["id"] for r in ref.categorise(A) if r["baseline"] and (ref.BLOCK in r["reasons"] or ref.ZERO in r["reasons"])}
        leaked = sorted(set().union(*seen_in_outlier_model) & excluded)
        if leaked:
            viol("excluded_unit_in_outlier_model", f"blocklisted / zero-baseline units {leaked[:4]} are among the units the outlier detection model is fitted on", sig="excluded_unit_in_outlier_model")
            return
    if not ra.ok:
        ctx.label("base:" + ("too_few_units" if common.is_gate_error(ra.exc) else "exception"))
        return
    if not rb.ok:
        viol("perturbation_changed_outcome", f"base completes, perturbed run: {type(rb.exc).__name__}: {rb.exc}", sig=exc_signature(rb.exc))
        return
    ua, ucols = rows_by_key(ra.tables["unit_data"], ["geographic_unit_fips"])
    ub, _ = rows_by_key(rb.tables["unit_data"], ["geographic_unit_fips"])
    if set(ua) != set(ub):
        viol("unit_rows_changed", f"{sorted(set(ua) ^ set(ub))[:4]}")
        return
    own_changed = False
    for k, row in ua.items():
        for c in ucols:
            if not same(row[c], ub[k][c]):
                if k[0] == p["id"]:
                    own_changed = True
                    if c in ("unit_category", "reporting", "postal_code"):
                        viol("own_category_changed", f"{k[0]} {c}: {row[c]} -> {ub[k][c]}")
                        return
                    continue
                viol("other_unit_changed", f"unit {k[0]} column {c}: {row[c]} -> {ub[k][c]} after changing {p['kind']} unit {p['id']} ({p['repl']})", sig=f"other_unit_changed|{p['kind']}")
                return
    recs = ref.categorise(B, common.outlier_flags_from_run(B, rb.tables["unit_data"]))
    prec = next((r for r in recs if r["id"] == p["id"]), None)
    if prec is None:
        return
    for agg in req["aggregates"]:
        if agg == "unit":
            continue
        keys = level_keys(office, agg)
        name = AGG_TABLE[agg]
        a_rows, cols = rows_by_key(ra.tables[name], keys)
        b_rows, _ = rows_by_key(rb.tables[name], keys)
        if set(a_rows) != set(b_rows):
            viol("agg_rows_changed", f"{name}: {sorted(set(a_rows) ^ set(b_rows), key=str)[:4]}")
            return
        gk = ref.group_key(prec, keys)
        for k, row in a_rows.items():
            if k != gk:
                for c in cols:
                    if not same(row[c], b_rows[k][c]):
                        viol("other_group_changed", f"{name} {k} {c}: {row[c]} -> {b_rows[k][c]} after changing {p['kind']} unit {p['id']} (its group: {gk})", sig=f"other_group_changed|{p['kind']}")
                        return
            else:
                if not same(row["reporting"], b_rows[k]["reporting"]):
                    viol("reporting_count_changed", f"{name} {k}: {row['reporting']} -> {b_rows[k]['reporting']}")
                    return
                if pi != "bootstrap":
                    own_a, own_b = ua[(p["id"],)], ub[(p["id"],)]
                    for e in req["estimands"]:
                        cs = [f"pred_{e}", f"results_{e}"]
                        if pi == "nonparametric":
                            cs += [f"{s}_{a}_{e}" for a in req["alphas"] for s in ("lower", "upper")]
                        for c in cs:
                            d_unit = float(own_b[c]) - float(own_a[c])
                            d_grp = float(b_rows[k][c]) - float(row[c])
                            if d_unit != d_grp:
                                viol("group_change_not_own_change", f"{name} {k} {c}: group changes by {d_grp}, the unit's own row by {d_unit}")
                                return
    others_nonrep = sum(1 for r in recs if r["cat"] == ref.EXPECTED and not r["reporting"] and r["id"] != p["id"])
    outl = common.outliers_enabled(A)
    if own_changed and others_nonrep >= 1:
        ctx.nontrivial(
            [pi, office, p["kind"], p["repl"], outl, bool(req["fe"]), bool([f for f in req["features"] if f.startswith("x")])],
            {"perturb": p, "base": common.summarize_case(A, recs)},
        )


# ---- historical clause -----------------------------------------------------------------------------------------
@gen.st.composite
def _hist_strategy(draw):
    st = gen.st
    case = draw(
        gen.election_case(
                thresholds=(100, 100, 90, 75, 50),  # a unit 'below the threshold' needs a threshold above 0
            estimators=("nonparametric", "gaussian"),
            offices=("G",),
            allow_extra=False,
            policies=("drop",),
            statuses=(gen.N, gen.N0, gen.N, gen.A),
            special_counties=False,
            allow_state_blocklist=False,
            tf_limits=((0.5, 2.0),),
            min_nonrep=2,
            max_states=2,
            max_counties=3,
            max_other=8,
            slack=(0, 6),
            alphas_pool=(0.5, 0.7, 0.8),
        )
    )
    if "unit" not in case["req"]["aggregates"]:
        case["req"]["aggregates"] = case["req"]["aggregates"] + ["unit"]
    case["hist_factor"] = draw(st.sampled_from([0, 3, 17]))
    return case


def check_hist(case, ctx):
    ctx.evaluated()
    thr = case["req"]["thr"]
    hidden = [u for u in case["units"] if u["feed"] is not None and u["feed"]["pev"] < thr]
    ok1, out1 = hist.run_historical(case)
    if not ok1:
        if common.is_gate_error(out1):
            ctx.label("hist:too_few_units")
            return
        ctx.violation("exception", f"historical run: {type(out1).__name__}: {out1}", case, sig=exc_signature(out1))
        return
    f = case["hist_factor"]
    override = {u["id"]: (u["final"][0] * f + 1, u["final"][1] * f + 2, u["final"][2] * f) for u in hidden}
    ok2, out2 = hist.run_historical(case, hist_results=override)
    if not ok2:
        ctx.violation("hidden_results_changed_outcome", f"{type(out2).__name__}: {out2}", case, sig=exc_signature(out2))
        return
    for hid in out1:
        t1, t2 = out1[hid]["estimates"], out2[hid]["estimates"]
        if set(t1) != set(t2):
            ctx.violation("hist_tables_differ", f"{sorted(t1)} vs {sorted(t2)}", case, sig="hist_tables_differ")
            return
        for name in t1:
            keys = [k for k in ("postal_code", "county_classification", "county_fips", "geographic_unit_fips") if k in t1[name].columns]
            a, cols = rows_by_key(t1[name], keys)
            b, _ = rows_by_key(t2[name], keys)
            if set(a) != set(b):
                ctx.violation("hist_rows_differ", name, case, sig="hist_rows_differ")
                return
            for k, row in a.items():
                for c in cols:
                    if not same(row[c], b[k][c]):
                        ctx.violation("estimates_depend_on_hidden_results", f"{name} {k} {c}: {row[c]} vs {b[k][c]} after changing the historical results of not-yet-reporting units", case, sig="estimates_depend_on_hidden_results")
                        return
        if "unit_data" in t1:
            ut = t1["unit_data"]
            hid_ids = {u["id"] for u in hidden}
            for e in case["req"]["estimands"]:
                bad = ut[ut["geographic_unit_fips"].isin(hid_ids) & (ut[f"results_{e}"] != 0)]
                if len(bad):
                    ctx.violation("hidden_results_visible", f"not-yet-reporting units carry results_{e}: {bad[['geographic_unit_fips', f'results_{e}']].head(3).to_dict('records')}", case, sig="hidden_results_visible")
                    return
    ctx.label("hist:pi:" + case["req"]["pi"])
    if hidden:
        ctx.nontrivial(["hist", case["req"]["pi"], case["req"]["estimands"], case["req"]["aggregates"], f, len(hidden)], {"part": "historical", "request": common.summarize_case(case)["request"], "n_hidden": len(hidden), "factor": f})


def run_part(name, seed, n, tier, ctx, si, sc):
    if name == "pairs":
        hyp_run(STRATEGY, lambda case: check_case(case, ctx), seed, n, tier)
    elif name == "extrap":
        hyp_run(EXTRAP, lambda case: check_case(case, ctx), seed, n, tier)
    else:
        hyp_run(_hist_strategy(), lambda case: check_hist(case, ctx), seed, n, tier)


def replay(case, ctx):
    if "hist_factor" in case:
        check_hist(case, ctx)
    else:
        check_case(case, ctx)


def facts(case):
    return {"pi": case["req"]["pi"], "office": case["office"], "kind": case.get("perturb", {}).get("kind")}


def shrink_candidates(case):
    if "perturb" not in case:
        return
    pid = case["perturb"]["id"]
    for c in common.generic_shrink_candidates({k: v for k, v in case.items() if k != "perturb"}):
        if any(u["id"] == pid for u in c["units"]) or any(e["id"] == pid for e in c.get("extra", [])):
            c["perturb"] = case["perturb"]
            yield c
