"""C08 - the national summary is bounded, ordered, and depends only on the contests."""
from __future__ import annotations

import copy

import hypothesis
import numpy as np
from hypothesis import HealthCheck, Phase, settings
from hypothesis import strategies as st
from hypothesis.stateful import RuleBasedStateMachine, initialize, precondition, rule, run_state_machine_as_test

from vf import boot, gen
from vf.drive import level_keys, run_case
from vf.props import common
from vf.runner import exc_signature, hyp_run, jhash

ID = "C08"
LEVEL = "exploration"
RULE = (
    "(a) history independence, Hypothesis rule-based state machine end-to-end: one generated bootstrap election; the "
    "reference summary comes from a fresh client with the canonical request [top level, unit]; rules run(aggregates) "
    "with any ordered list containing the top level plus finer levels (county, classification, district-county) with/"
    "without unit, summary(weights, base, levels = all / first / last requested level / another level), fresh_client(); after every summary: it neither raises nor differs "
    "from the reference for the same (weights, base, alphas); a weight dict of the wrong size raises the model error; a "
    "summary before any run raises the client error. (b) range / ordering / composition, model level with generated "
    "draw matrices: lower <= pred <= upper for every level; hard threshold: base <= lower, upper <= base + total "
    "weight, pred = base + weights of the contests whose reported (call-adjusted) margin is positive; called contests "
    "contribute no uncertainty (pred - lower <= weight of predicted winners that are uncalled or stop-listed, upper - "
    "pred likewise for predicted losers); calling a contest for its predicted winner never widens either side; both "
    "threshold and correlation modes; weight dictionaries with one entry too many, one too few, a single entry or none are rejected with the model error. Non-trivial: (a) a summary after a history whose last computed aggregate is not "
    "the top level; (b) >=1 contest whose bootstrap distribution straddles 0. Distinct = history shape / (mode, calls, "
    "contest pattern). (c) table: one canonical run, one summary call for 2-3 levels at once: the returned one-row table "
    "carries for every level exactly the model's (pred, lower, upper) of that level, ordered."
)
ASSUMPTIONS = [
    "soft-threshold mode is only checked for ordering (the statement claims no more)",
    "float weights: composition compared with 0.011 absolute tolerance (the code rounds to 2 decimals), integer weights exactly",
]
FLOOR = {"quick": 15, "thorough": 80}


def parts(tier):
    if tier == "quick":
        return [{"name": "machine", "n": 64}, {"name": "model", "n": 4000}, {"name": "table", "n": 96}]
    return [{"name": "machine", "n": 1000}, {"name": "model", "n": 60000}, {"name": "table", "n": 1600}]


# ---- (a) ------------------------------------------------------------------------------------------------------------
def summary_key(client, weights, base, alphas):
    try:
        df = client.get_national_summary_votes_estimates(copy.deepcopy(weights), base, list(alphas))
        return ("ok", jhash(df.to_dict("list"))), df
    except Exception as e:
        return ("exc", type(e).__name__, str(e)[:160]), None


class SummaryHistories(RuleBasedStateMachine):
    ctx = None

    def __init__(self):
        super().__init__()
        self.case = None
        self.client = None
        self.ran = False
        self.attempted = False
        self.last_aggs = None
        self.trace = []
        self.failed = False
        self.ref_cache = {}
        self.contests = None

    @initialize(case=gen.election_case(estimators=("bootstrap",), Bs=(10, 20), max_alphas=2, aggregates_mode="top", slack=(0, 6), max_other=8, lambdas=(0, 0.1), max_states=3))
    def setup(self, case):
        from elexmodel.client import ModelClient

        SummaryHistories.ctx.evaluated()
        self.case = case
        self.client = ModelClient()
        self.top = level_keys(case["office"], "postal_code")

    def _reference(self, weights_kind, base, alphas):
        key = (weights_kind, base, tuple(alphas))
        if key not in self.ref_cache:
            c = copy.deepcopy(self.case)
            c["req"]["aggregates"] = list(self.top) + ["unit"]
            r = run_case(c)
            if not r.ok:
                self.ref_cache[key] = None
            else:
                names = ["_".join(map(str, k)) for k in r.tables["state_data"][self.top].itertuples(index=False, name=None)]
                self.contests = names
                w = self._weights(weights_kind, names)
                self.ref_cache[key] = summary_key(r.client, w, base, alphas)[0]
        return self.ref_cache[key]

    @staticmethod
    def _weights(kind, names):
        """weight of a contest depends on its name only; the dictionary is built in NON-sorted insertion order (callers
        write their weights down in any order; the contests are matched by key)"""
        if kind == "none":
            return None
        ranked = sorted(names)
        order = ranked[1::2] + ranked[0::2][::-1]
        if kind == "ints":
            return {n: 3 + 2 * ranked.index(n) for n in order}
        return {n: 1.5 + 0.25 * ranked.index(n) for n in order}

    @rule(order=st.permutations(["county_fips", "county_classification", "unit", "TOP"]), keep=st.lists(st.booleans(), min_size=4, max_size=4), top_pos=st.integers(0, 3))
    def run(self, order, keep, top_pos):
        aggs = []
        for a, k in zip(order, keep):
            if a == "TOP":
                aggs.extend(self.top)
            elif k:
                aggs.append(a)
        c = copy.deepcopy(self.case)
        c["req"]["aggregates"] = aggs
        r = run_case(c, client=self.client)
        self.attempted = True
        self.trace.append(("run", aggs))
        if r.ok:
            self.ran = True
            self.last_aggs = aggs
        elif not common.is_gate_error(r.exc) and not self.failed:
            self.failed = True
            SummaryHistories.ctx.violation("exception", f"run {aggs}: {type(r.exc).__name__}: {r.exc}", {"case": self.case, "history": self.trace}, sig=exc_signature(r.exc))

    @rule()
    def fresh_client(self):
        from elexmodel.client import ModelClient

        self.client = ModelClient()
        self.ran = False
        self.attempted = False
        self.trace.append(("fresh_client", None))

    # only a client on which no run was even attempted: after a run that ended in the too-few-units error the client
    # holds a model without draws, and the statement says nothing about a summary call in that situation
    @precondition(lambda self: not self.ran and not self.attempted)
    @rule()
    def summary_before_run(self):
        ctx = SummaryHistories.ctx
        key, _ = summary_key(self.client, None, 0, [0.9])
        self.trace.append(("summary_before_run", None))
        if not (key[0] == "exc" and key[1] == "ModelClientException") and not self.failed:
            self.failed = True
            ctx.violation("summary_before_run_not_rejected", f"{key}", {"case": self.case, "history": self.trace}, sig="before_run")

    @precondition(lambda self: self.ran)
    @rule(kind=st.sampled_from(["none", "ints", "floats"]), base=st.sampled_from([0, 3, 100.5]), wrong_size=st.integers(0, 5), levels=st.sampled_from(["all", "all", "first", "last", "another"]))
    def summary(self, kind, base, wrong_size, levels):
        ctx = SummaryHistories.ctx
        alphas = self.case["req"]["alphas"]
        # successive summary requests on one client may ask for different levels (seats at one level, electoral votes
        # at another): what an earlier request asked for must not show in a later one
        alphas = {"all": alphas, "first": alphas[:1], "last": alphas[-1:], "another": [0.6]}[levels]
        refkey = self._reference(kind, base, alphas)
        if refkey is None or self.contests is None:
            return
        w = self._weights(kind, self.contests)
        stored = {"case": self.case, "history": self.trace + [("summary", [kind, base, levels])]}
        if wrong_size == 0 and w is not None:
            w = dict(w)
            w["ZZ_extra"] = 1
            key, _ = summary_key(self.client, w, base, alphas)
            self.trace.append(("summary_wrong_size", None))
            if not (key[0] == "exc" and key[1] == "BootstrapElectionModelException") and not self.failed:
                # a wrong-size dict must be rejected -- but only blame this clause when the history is canonical
                self.failed = True
                ctx.violation("wrong_size_not_rejected", f"{len(w)} weights for {len(self.contests)} contests: {key}", stored, sig="wrong_size")
            return
        key, df = summary_key(self.client, w, base, alphas)
        self.trace.append(("summary", [kind, base, levels]))
        if df is not None and not self.failed:
            # the table the client returns must carry, per level, the bounds the model computes for that level
            try:
                pred = float(df["agg_pred"].iloc[0])
                for a in alphas:
                    est = self.client.model.get_national_summary_estimates(copy.deepcopy(w), base, a)["margin"]
                    lo, up = float(df[f"lower_{a}"].iloc[0]), float(df[f"upper_{a}"].iloc[0])
                    if (pred, lo, up) != tuple(float(x) for x in est) or not (lo <= pred <= up):
                        self.failed = True
                        ctx.violation(
                            "summary_table_misreports_level",
                            f"alpha={a}: table (pred, lower, upper) = ({pred}, {lo}, {up}); the model's estimate for this level is {est}",
                            stored,
                            sig="table_level",
                        )
                        break
            except KeyError as e:
                self.failed = True
                ctx.violation("summary_table_columns", f"missing column {e}: {list(df.columns)}", stored, sig="table_columns")
        if key != refkey and not self.failed:
            self.failed = True
            ctx.violation(
                "summary_depends_on_history",
                f"after history {self.trace}: {key}; canonical request gives {refkey}",
                stored,
                sig="history|" + (key[1] if key[0] == "exc" else "value"),
            )
        last_top = self.last_aggs is not None and [a for a in self.last_aggs if a != "unit"][-1:] == self.top[-1:]
        ctx.label("summary_after_last_aggregate:" + ("top" if last_top else "finer"))
        if not last_top:
            ctx.nontrivial(jhash([t for t in self.trace]), {"history": self.trace[-6:], "office": self.case["office"]})


def run_machine(seed, n, tier, ctx):
    SummaryHistories.ctx = ctx
    s = settings(
        max_examples=max(1, n),
        stateful_step_count=6 if tier == "quick" else 8,
        database=None,
        deadline=None,
        report_multiple_bugs=False,
        phases=[Phase.generate],
        suppress_health_check=list(HealthCheck),
    )
    run_state_machine_as_test(hypothesis.seed(seed)(SummaryHistories), settings=s)


# ---- (b) ------------------------------------------------------------------------------------------------------------
@st.composite
def _model_strategy(draw):
    case = draw(boot.model_case(with_calls=True, max_contests=6))
    case["settings"] = {
        "agg_model_hard_threshold": draw(st.sampled_from([True, True, True, False])),
        "national_summary_correlation": draw(st.booleans()),
    }
    case["weights_kind"] = draw(st.sampled_from(["none", "ints", "floats"]))
    case["base"] = draw(st.sampled_from([0, 3, 100.5, -2]))
    return case


def nat_summary(case, lhs, rhs, stop):
    frames = boot.build(case)
    model, t = boot.top_level(case, lhs=lhs, rhs=rhs, stop=stop, model_and_frames=frames)
    names = list(t["name"])
    w = SummaryHistories._weights(case["weights_kind"], sorted(names))
    out = {}
    for a in case["alphas"]:
        # the interval functions leave the draws of the level computed last on the model: recompute for this alpha
        est = model.get_national_summary_estimates(copy.deepcopy(w), case["base"], a)
        out[a] = est["margin"]
    return t, names, w, out


def check_model(case, ctx):
    ctx.evaluated()
    viol = lambda kind, detail: ctx.violation(kind, detail, case, sig=kind)  # noqa: E731
    lhs, rhs, stop = case["lhs"], case["rhs"], case["stop"]
    try:
        t, names, w, out = nat_summary(case, lhs, rhs, stop)
    except Exception as e:
        ctx.violation("exception", f"{type(e).__name__}: {e}", case, sig=exc_signature(e))
        return
    # "a weight dictionary of the wrong size is rejected": one entry too many, one too few, a single entry, none
    try:
        model_ws = boot.top_level(case, lhs=lhs, rhs=rhs, stop=stop, model_and_frames=boot.build(case))[0]
        full = SummaryHistories._weights("ints", sorted(names))
        wrong = [dict(full, ZZ_extra=1), dict(list(full.items())[:-1]), dict(list(full.items())[:1]), {}]
        for wd in wrong:
            if len(wd) == len(names):
                continue
            try:
                got = model_ws.get_national_summary_estimates(copy.deepcopy(wd), case["base"], case["alphas"][0])
            except Exception as e:
                if type(e).__name__ != "BootstrapElectionModelException":
                    viol("wrong_size_other_error", f"{len(wd)} weights for {len(names)} contests: {type(e).__name__}: {e}")
                    return
                continue
            viol("wrong_size_not_rejected", f"{len(wd)} weights for {len(names)} contests accepted: {got}")
            return
        ctx.label("wrong_size_dicts_rejected")
    except Exception as e:
        ctx.violation("exception", f"{type(e).__name__}: {e}", case, sig=exc_signature(e))
        return
    hard = case["settings"]["agg_model_hard_threshold"]
    weights = {n: (1 if w is None else w[n]) for n in names}
    total = sum(weights.values())
    ints = case["weights_kind"] != "floats" and float(case["base"]).is_integer()
    tol = 0 if ints else 0.011
    pm = {r["name"]: float(r["pred_margin"]) for r in t.to_dict("records")}
    base = case["base"]
    straddle = False
    for a, (pred, lo, up) in out.items():
        if not (lo <= pred <= up):
            viol("summary_not_ordered", f"alpha={a}: lower {lo} pred {pred} upper {up} (correlation={case['settings']['national_summary_correlation']}, hard={hard})")
            return
        if hard:
            if lo < base - tol or up > base + total + tol:
                viol("summary_out_of_range", f"alpha={a}: [{lo}, {up}] outside [{base}, {base + total}]")
                return
            exp_pred = base + sum(weights[n] for n in names if pm[n] > 0)
            if abs(pred - exp_pred) > tol + 1e-9:
                viol("summary_pred_composition", f"pred {pred} but base + weights of contests with positive reported margin = {exp_pred}")
                return
            open_w = sum(weights[n] for n in names if pm[n] > 0 and (n not in lhs and n not in rhs or n in stop))
            open_l = sum(weights[n] for n in names if not pm[n] > 0 and (n not in lhs and n not in rhs or n in stop))
            if pred - lo > open_w + tol + 1e-9:
                viol("called_contest_adds_uncertainty", f"alpha={a}: pred - lower = {pred - lo} > weight of open predicted winners {open_w}")
                return
            if up - pred > open_l + tol + 1e-9:
                viol("called_contest_adds_uncertainty", f"alpha={a}: upper - pred = {up - pred} > weight of open predicted losers {open_l}")
                return
            if lo < pred or up > pred:
                straddle = True
    # metamorphic: calling an uncalled contest for its predicted winner never widens either side
    if hard:
        for n in names:
            if n in lhs or n in rhs or n in stop:
                continue
            l2, r2 = (lhs + [n], rhs) if pm[n] > 0 else (lhs, rhs + [n])
            try:
                t2, _, _, out2 = nat_summary(case, l2, r2, stop)
            except Exception as e:
                ctx.violation("exception", f"{type(e).__name__}: {e}", case, sig=exc_signature(e))
                return
            for a in out:
                p1, lo1, up1 = out[a]
                p2, lo2, up2 = out2[a]
                # the point prediction may move only if the call pushes a |margin| < 0.005 over the line (it cannot
                # change the sign for the predicted winner)
                if abs(p1 - p2) > tol + 1e-9 and pm[n] != 0:
                    viol("call_for_predicted_winner_changed_pred", f"{n}: pred {p1} -> {p2}")
                    return
                if (p2 - lo2) > (p1 - lo1) + tol + 1e-9 or (up2 - p2) > (up1 - p1) + tol + 1e-9:
                    viol("call_widened_interval", f"calling {n} for its predicted winner: [{lo1},{p1},{up1}] -> [{lo2},{p2},{up2}] alpha={a}")
                    return
            break  # one contest per case keeps the cost bounded
    ctx.label(f"mode:hard={hard},corr={case['settings']['national_summary_correlation']}")
    if straddle:
        ctx.nontrivial(
            ["model", hard, case["settings"]["national_summary_correlation"], case["weights_kind"], len(names), sorted(lhs), sorted(rhs), sorted(stop), [(c["mean"], c["spread"]) for c in case["contests"]]],
            {"part": "model", "settings": case["settings"], "lhs": lhs, "rhs": rhs, "stop": stop, "summary": {str(a): v for a, v in out.items()}},
        )


# ---- (c) the table the client returns for several levels -----------------------------------------------------------------
TABLE = gen.election_case(
    estimators=("bootstrap",), Bs=(10, 20, 40), max_alphas=3, alphas_pool=(0.5, 0.7, 0.8, 0.9, 0.99), aggregates_mode="top", slack=(0, 8), max_other=10, lambdas=(0, 0.1), max_states=3, min_nonrep=2
)


def check_table(case, ctx):
    """One canonical run, one summary call for ALL requested levels: the returned one-row table must carry, for each
    level, exactly what the model computes for that level, be ordered and nested."""
    ctx.evaluated()
    c = copy.deepcopy(case)
    top = level_keys(c["office"], "postal_code")
    c["req"]["aggregates"] = list(top) + ["unit"]
    r = run_case(c)
    if not r.ok:
        return
    names = ["_".join(map(str, k)) for k in r.tables["state_data"][top].itertuples(index=False, name=None)]
    alphas = list(c["req"]["alphas"])
    for kind, base in (("ints", 3), ("none", 0)):
        w = SummaryHistories._weights(kind, names)
        key, df = summary_key(r.client, w, base, alphas)
        if df is None:
            ctx.violation("summary_failed", f"{key}", case, sig="summary_failed")
            return
        cols = ["estimand", "agg_pred"] + [f"{s}_{a}" for a in alphas for s in ("lower", "upper")]
        if sorted(df.columns) != sorted(cols) or len(df) != 1:
            ctx.violation("summary_table_columns", f"{list(df.columns)} expected {cols}", case, sig="table_columns")
            return
        pred = float(df["agg_pred"].iloc[0])
        per = {}
        for a in alphas:
            est = [float(x) for x in r.client.model.get_national_summary_estimates(copy.deepcopy(w), base, a)["margin"]]
            lo, up = float(df[f"lower_{a}"].iloc[0]), float(df[f"upper_{a}"].iloc[0])
            per[a] = (lo, up)
            if [pred, lo, up] != est or not (lo <= pred <= up):
                ctx.violation("summary_table_misreports_level", f"alpha={a}: table (pred, lower, upper) = ({pred}, {lo}, {up}); the model's estimate for this level is {est}", case, sig="table_level")
                return
        srt = sorted(alphas)
        for a, b in zip(srt, srt[1:]):
            if not (per[b][0] <= per[a][0] and per[a][1] <= per[b][1]):
                ctx.label("summary_levels_not_nested")  # reported only: the statement does not claim nesting for the summary
        if len(alphas) >= 2 and any(lo < pred or up > pred for lo, up in per.values()):
            ctx.nontrivial(["table", len(alphas), kind, len(names), c["office"]], {"part": "table", "alphas": alphas, "weights": kind, "summary": df.to_dict("records")[0]})


def run_part(name, seed, n, tier, ctx, si, sc):
    if name == "machine":
        run_machine(seed, n, tier, ctx)
    elif name == "table":
        hyp_run(TABLE, lambda case: check_table(case, ctx), seed, n, tier)
    else:
        hyp_run(_model_strategy(), lambda case: check_model(case, ctx), seed, n, tier)


def replay(case, ctx):
    if "history" in case:
        from elexmodel.client import ModelClient

        base_case = case["case"]
        top = level_keys(base_case["office"], "postal_code")
        m = SummaryHistories.__new__(SummaryHistories)
        client = ModelClient()
        ran = False
        for step, arg in case["history"]:
            if step == "run":
                c = copy.deepcopy(base_case)
                c["req"]["aggregates"] = arg
                r = run_case(c, client=client)
                ran = ran or r.ok
            elif step == "fresh_client":
                client = ModelClient()
                ran = False
            elif step == "summary" and ran:
                kind, base = arg[0], arg[1]
                levels = arg[2] if len(arg) > 2 else "all"  # histories stored before the levels varied per call
                al = base_case["req"]["alphas"]
                al = {"all": al, "first": al[:1], "last": al[-1:], "another": [0.6]}[levels]
                c = copy.deepcopy(base_case)
                c["req"]["aggregates"] = list(top) + ["unit"]
                rr = run_case(c)
                if not rr.ok:
                    return
                names = ["_".join(map(str, k)) for k in rr.tables["state_data"][top].itertuples(index=False, name=None)]
                w = SummaryHistories._weights(kind, names)
                refkey = summary_key(rr.client, w, base, al)[0]
                key = summary_key(client, w, base, al)[0]
                if key != refkey:
                    ctx.violation("summary_depends_on_history", f"replayed history: {key} vs canonical {refkey}", case, sig="history|" + (key[1] if key[0] == "exc" else "value"))
                    return
    elif "units" in case:
        check_table(case, ctx)
    else:
        check_model(case, ctx)


def facts(case):
    return {"part": "machine" if "history" in case else "model"}
