"""Hypothesis strategies for election cases.

A case is a plain JSON document (see DESIGN.md 2.1).  Structure, statuses, boundaries and the request are
individual Hypothesis draws; bulk per-unit numbers come from numpy generators keyed by (noise_seed, unit index),
so the case is a pure function of the drawn values.  The *materialised* case (all numbers written out) is what is
stored for replay.
"""
from __future__ import annotations

import math

import numpy as np
from hypothesis import strategies as st

ELECTION_ID = "2030-11-05_ZZ_G"
STATES = ["AA", "BB", "CC"]
CLASSES = ["urban", "rural", "suburb", "exurb"]
VOTE_ESTIMANDS = ["turnout", "dem", "gop"]

# unit statuses
R = "R"  # in feed at/above threshold, ordinary turnout factor -> modelled reporting
RB = "RB"  # like R but percent_expected_vote exactly == threshold
N = "N"  # in feed below threshold with partial counts
N0 = "N0"  # in feed, 0 percent, zero votes
NH = "NH"  # in feed below threshold, partial count already far above the baseline ("hard" floor case)
A = "A"  # absent from the feed
Z = "Z"  # zero baseline, reporting
ZN = "ZN"  # zero baseline, not reporting
ZA = "ZA"  # zero baseline, absent from feed
B = "B"  # unit-blocklisted, reporting
BN = "BN"  # unit-blocklisted, below threshold
BZ = "BZ"  # unit-blocklisted AND zero baseline, reporting (two applicable reasons)
BZN = "BZN"  # unit-blocklisted AND zero baseline, below threshold
T_HI = "TH"  # reporting, turnout factor >= upper limit
T_LO = "TL"  # reporting, turnout factor <= lower limit
OTHER_STATUSES = [N, N, N, N0, NH, A, Z, ZN, ZA, B, BN, BZ, BZN, T_HI, T_LO]


def nonparam_min_units(alpha):
    return math.ceil(-1 * (alpha + 1) / (alpha - 1))


def min_units(pi, alphas):
    if pi == "nonparametric":
        return max(nonparam_min_units(a) for a in alphas)
    if pi == "gaussian":
        return 7
    return 10


def valid_aggregates(office):
    if office in ("H", "Y", "Z"):
        return ["postal_code", "district", "county_classification", "county_fips"]
    return ["postal_code", "county_classification", "county_fips"]


def unit_noise(noise_seed, i):
    return np.random.default_rng([int(noise_seed) % (2**32), int(i)])


def _baseline(rng, small=False, lopsided=0.0, third_party=0.08):
    if lopsided and rng.random() < lopsided:
        # a unit that one party wins 99.5 : 0.5 (its baseline normalised margin is close to +-1)
        size = float(np.exp(rng.normal(6.0, 0.9)))
        share = [0.995, 0.005, 1.0, 0.0][int(rng.integers(0, 4))]  # incl. pure one-party units (margin exactly +-1)
        bd = int(round(size * share)) if share in (0.0, 1.0) else max(1, int(round(size * share)))
        bg = int(round(size * (1 - share))) if share in (0.0, 1.0) else max(1, int(round(size * (1 - share))))
        return bd, bg, int(rng.integers(0, 3))
    if small:
        bd = int(rng.integers(1, 15))
        bg = int(rng.integers(1, 15))
        bo = int(rng.integers(0, 4))
    else:
        size = float(np.exp(rng.normal(6.0, 0.9)))
        share = float(np.clip(rng.normal(0.5, 0.17), 0.08, 0.92))
        bd = max(20, int(round(size * share)))
        bg = max(20, int(round(size * (1 - share))))
        bo = int(rng.integers(0, max(2, int(size * third_party))))
    return bd, bg, bo


def _final_results(rng, bd, bg, bo, x1, state_shift, swing_scale=1.0, tf_mu=0.05):
    """Final (100%) results of a unit with an ordinary turnout factor (strictly inside (0.5, 2) for both
    total and two-party turnout)."""
    for _ in range(8):
        tf = float(np.clip(np.exp(rng.normal(tf_mu + 0.04 * x1, 0.12 * swing_scale)), 0.68, 1.6))
        d = float(np.clip(rng.normal(0.02 + state_shift + 0.03 * x1, 0.05 * swing_scale), -0.25, 0.25))
        rd = int(round(bd * tf * (1 + d)))
        rg = int(round(bg * tf * (1 - d)))
        ro = int(round(bo * tf))
        t2 = (rd + rg) / max(1, bd + bg)
        tt = (rd + rg + ro) / max(1, bd + bg + bo)
        if 0.6 < t2 < 1.8 and 0.6 < tt < 1.8:
            return rd, rg, ro
    return bd, bg, bo


@st.composite
def election_case(
    draw,
    estimators=("nonparametric", "gaussian", "bootstrap"),
    offices=("G", "H"),
    max_states=3,
    max_counties=4,
    max_other=18,
    slack=(0, 14),
    alphas_pool=(0.5, 0.7, 0.8, 0.9),
    max_alphas=2,
    statuses=tuple(OTHER_STATUSES),
    allow_extra=True,
    thresholds=(100, 100, 90, 75, 50, 0),
    policies=("drop", "zero"),
    allow_features=True,
    allow_fe=True,
    allow_state_blocklist=True,
    outliers=(False, False, False, True),
    aggregates_mode="any",  # "any" | "top" (always contains the top level) | "full"
    exact_reporting=None,  # if set: exactly this many modelled reporting units (C14)
    force_estimands=None,
    special_counties=True,
    Bs=(10, 20, 40),
    lambdas=(None, 0, 0.1, 10),
    tf_limits=((0.5, 2.0), (0.5, 2.0), (0.8, 1.25), (0, 2.0)),
    swing_scale=1.0,
    min_nonrep=0,
    unit_types=("precinct", "precinct", "precinct", "county"),
    min_states=1,
    state_blocklist_odds=8,
    lopsided=0.0,
    third_party=(0.08, 0.08, 0.08, 1.2),
    turnout_surge=(0.05, 0.05, 0.05, 0.33, -0.2),  # mean log turnout factor of the election (0.33: everybody near x1.4)
    stalled=10,  # one in `stalled` partial reporters has an expected-vote percentage but no two-party votes yet
):
    pi = draw(st.sampled_from(list(estimators)))
    office = draw(st.sampled_from(list(offices)))
    district = office in ("H", "Y", "Z")
    gut = "precinct-district" if district else "precinct"
    noise_seed = draw(st.integers(0, 2**31 - 1))

    # ---- request ------------------------------------------------------------------------------------------
    n_alpha = draw(st.integers(1, max_alphas))
    alphas = draw(st.lists(st.sampled_from(list(alphas_pool)), min_size=n_alpha, max_size=n_alpha, unique=True))
    if pi == "bootstrap":
        estimands = ["margin"]
    elif force_estimands is not None:
        estimands = list(force_estimands)
    else:
        k = draw(st.integers(1, 2))
        estimands = draw(st.lists(st.sampled_from(VOTE_ESTIMANDS), min_size=k, max_size=k, unique=True))
    va = valid_aggregates(office)
    top = ["postal_code", "district"] if district else ["postal_code"]
    if aggregates_mode == "full":
        aggregates = va + ["unit"]
    else:
        pool = va + ["unit"]
        aggregates = draw(st.lists(st.sampled_from(pool), min_size=1, max_size=len(pool), unique=True))
        if aggregates_mode == "top" or draw(st.integers(0, 9)) < 7:
            for t in reversed(top):
                if t not in aggregates:
                    aggregates = [t] + aggregates
        if draw(st.integers(0, 9)) < 8 and "unit" not in aggregates:
            aggregates = aggregates + ["unit"]
    thr = draw(st.sampled_from(list(thresholds)))
    hu = draw(st.sampled_from(list(policies)))
    features = []
    if allow_features:
        features = draw(st.sampled_from([[], [], ["x1"], ["x1", "x2"], ["x2"]]))
    if pi == "bootstrap":
        features = ["baseline_normalized_margin"] + features
    fe = {}
    n_states = draw(st.integers(min(min_states, max_states), max_states))
    if allow_fe:
        fe_choice = draw(st.integers(0, 9))
        if fe_choice == 0:
            fe = {"county_classification": ["all"]}
        elif fe_choice == 1 and n_states > 1:
            fe = {"postal_code": ["all"]}
        elif fe_choice == 2:
            fe = ["county_classification"]
        elif fe_choice == 3:
            fe = {"county_classification": [CLASSES[0]]}
    mp = {"seed": draw(st.integers(0, 500))}
    if pi == "bootstrap":
        mp["B"] = draw(st.sampled_from(list(Bs)))
        lam = draw(st.sampled_from(list(lambdas)))
        if lam is not None:
            mp["lambda_"] = lam
    elif pi == "nonparametric":
        if draw(st.booleans()):
            mp["robust"] = draw(st.booleans())
        if draw(st.integers(0, 4)) == 0:
            mp["lambda_"] = draw(st.sampled_from([0, 0.5, 5]))
    else:
        if draw(st.integers(0, 3)) == 0:
            mp["beta"] = draw(st.sampled_from([1, 2, 0.5]))
        # the winsorised scale bootstrap costs seconds per (group, bound): keep it to small requests
        if draw(st.integers(0, 7)) == 0:
            mp["winsorize"] = bool(len(alphas) == 1 and len(estimands) == 1 and draw(st.booleans()))
            if mp["winsorize"]:
                aggregates = aggregates[:2]
    outl = draw(st.sampled_from(list(outliers)))
    mp["fit_margin_outlier_model"] = outl
    mp["fit_turnout_outlier_model"] = outl
    tfl, tfu = draw(st.sampled_from(list(tf_limits)))
    if (tfl, tfu) != (0.5, 2.0):
        mp["turnout_factor_lower"], mp["turnout_factor_upper"] = tfl, tfu

    # ---- structure ----------------------------------------------------------------------------------------
    states = STATES[:n_states]
    counties = []  # (state, county_fips)
    for si, s in enumerate(states):
        nc = draw(st.integers(1, max_counties))
        for c in range(nc):
            counties.append((s, f"{si + 1}{c + 1:02d}"))
    n_cls = draw(st.integers(1, 3))
    county_cls = [draw(st.integers(0, n_cls - 1)) for _ in counties]
    n_dist = draw(st.integers(1, 3)) if district else 0
    # real district ids are numbers without padding ("1", "10", "100"): one id may be a prefix of another
    dist_names = draw(st.sampled_from([["d1", "d2", "d3", "d9"], ["1", "10", "2", "100"]])) if district else []
    blocked_state = None
    if allow_state_blocklist and n_states > 1 and draw(st.integers(0, state_blocklist_odds - 1)) == 0:
        blocked_state = states[-1]
        mp["postal_code_blocklist"] = [blocked_state]
    open_counties = [i for i, (s, _) in enumerate(counties) if s != blocked_state]

    need = min_units(pi, alphas)
    if exact_reporting is not None:
        n_rep = exact_reporting if isinstance(exact_reporting, int) else max(0, need + draw(exact_reporting))
    else:
        n_rep = need + 2 + draw(st.integers(slack[0], slack[1])) + (6 if outl else 0)
    n_other = draw(st.integers(min_nonrep, max_other))

    units = []
    plan = []  # (county index, status)
    for _ in range(n_rep):
        ci = open_counties[draw(st.integers(0, len(open_counties) - 1))]
        plan.append((ci, RB if draw(st.integers(0, 11)) == 0 else R))
    for j in range(n_other):
        ci = draw(st.integers(0, len(counties) - 1))
        if j < min_nonrep:
            plan.append((ci, N))
        else:
            plan.append((ci, draw(st.sampled_from(list(statuses)))))
    if special_counties:
        # counties that exist only through nonreporting / only through non-modelled units
        sp = draw(st.integers(0, 7))
        if sp in (0, 1, 2):
            s = states[draw(st.integers(0, n_states - 1))]
            si = states.index(s)
            counties.append((s, f"{si + 1}8{sp}"))
            county_cls.append(draw(st.integers(0, min(3, n_cls))))  # possibly a class of its own
            pool = {0: [N, N0, NH], 1: [Z, ZN, B, BN], 2: [A, N]}[sp]
            for _ in range(draw(st.integers(1, 3))):
                plan.append((len(counties) - 1, draw(st.sampled_from(pool))))
    order = draw(st.permutations(list(range(len(plan))))) if len(plan) <= 60 and draw(st.booleans()) else list(range(len(plan)))
    plan = [plan[i] for i in order]

    # state level shifts
    srng = unit_noise(noise_seed, 10_000_019)
    state_shift = {s: float(srng.normal(0, 0.04)) for s in states}
    hard_factor = draw(st.sampled_from([3, 8, 40]))
    third = draw(st.sampled_from(list(third_party)))  # size of the third-party vote relative to the two-party vote
    tf_mu = draw(st.sampled_from(list(turnout_surge)))

    per_county_counter = {}
    blocklist = []
    for i, (ci, status) in enumerate(plan):
        s, county = counties[ci]
        rng = unit_noise(noise_seed, i)
        k = per_county_counter.get(ci, 0) + 1
        per_county_counter[ci] = k
        dist = dist_names[int(rng.integers(0, n_dist))] if district else None
        uid = f"{dist}_{county}_p{k}" if district else f"{county}_p{k}"
        x1 = round(float(rng.normal(0, 1)), 4)
        x2 = round(float(rng.normal(0, 1)), 4)
        bd, bg, bo = _baseline(rng, small=(rng.random() < 0.04), lopsided=lopsided, third_party=third)
        if status in (Z, ZN, ZA, BZ, BZN):
            # zero baseline: zero turnout (vote estimands) and zero two-party vote (margin)
            bd, bg, bo = 0, 0, 0
        fd, fg, fo = _final_results(rng, bd, bg, bo, x1, state_shift[s], swing_scale, tf_mu)
        feed = None
        if status in (R, RB, B, Z, BZ):
            pev = thr if status == RB else draw(st.sampled_from([100, 100, 100, max(thr, 99.5), 105])) if thr <= 100 else thr
            pev = max(pev, thr)
            if status in (Z, BZ):
                fd, fg, fo = int(rng.integers(0, 30)), int(rng.integers(0, 30)), int(rng.integers(0, 5))
            feed = {"pev": pev, "rd": fd, "rg": fg, "ro": fo}
        elif status in (T_HI, T_LO):
            f = 2.0 if status == T_HI else 0.5
            lim = tfu if status == T_HI else tfl
            # exactly on the limit where representable, else clearly beyond
            if draw(st.booleans()):
                f = lim
                fd, fg, fo = bd * f, bg * f, bo * f
                if any(abs(v - round(v)) > 1e-9 for v in (fd, fg, fo)):
                    f = 3.0 if status == T_HI else 0.25
                    fd, fg, fo = int(bd * f), int(bg * f), int(bo * f)
                else:
                    fd, fg, fo = int(round(fd)), int(round(fg)), int(round(fo))
            else:
                f = 3.0 if status == T_HI else 0.25
                fd, fg, fo = int(bd * f), int(bg * f), int(bo * f)
            feed = {"pev": max(thr, 100), "rd": fd, "rg": fg, "ro": fo}
        elif status in (N, BN, ZN, NH, BZN):
            if thr <= 0:
                pev = 0
            else:
                pev = draw(st.sampled_from([0, 10, 50, 60, 80, 95, thr - 0.5, thr - 1e-9]))
                pev = min(pev, thr - 1e-9) if pev >= thr else pev
                pev = max(pev, 0)
            frac = min(pev, 100) / 100
            if status == NH:
                pd_, pg_, po_ = fd * hard_factor, fg * hard_factor, fo * hard_factor
                if pev == 0:
                    pev = min(50, thr - 1e-9) if thr > 0 else 0
            elif status in (ZN, BZN):
                pd_, pg_, po_ = int(rng.integers(0, 9)), int(rng.integers(0, 9)), 0
            else:
                pd_, pg_, po_ = int(fd * frac), int(fg * frac), int(fo * frac)
                if stalled and status == N and draw(st.integers(0, stalled - 1)) == 0:
                    pd_, pg_ = 0, 0
            feed = {"pev": pev, "rd": int(pd_), "rg": int(pg_), "ro": int(po_)}
        elif status == N0:
            feed = {"pev": 0, "rd": 0, "rg": 0, "ro": 0}
        # A, ZA: absent
        if status in (B, BN, BZ, BZN):
            blocklist.append(uid)
        units.append(
            {
                "id": uid,
                "st": s,
                "county": county,
                "cls": CLASSES[county_cls[ci]],
                "dist": dist,
                "bd": bd,
                "bg": bg,
                "bo": bo,
                "x1": x1,
                "x2": x2,
                "status": status,
                "feed": feed,
                "final": [fd, fg, fo],
            }
        )
    if blocklist:
        mp["unit_blocklist"] = blocklist

    extra = []
    if allow_extra:
        n_extra = draw(st.sampled_from([0, 0, 0, 1, 1, 2, 3]))
        for k in range(n_extra):
            rng = unit_noise(noise_seed, 50_000 + k)
            s = states[draw(st.integers(0, n_states - 1))]
            si = states.index(s)
            known_county = draw(st.booleans())
            cands = [c for (ss, c) in counties if ss == s]
            county = cands[draw(st.integers(0, len(cands) - 1))] if known_county and cands else f"{si + 1}9{k}"
            if district:
                dist = dist_names[draw(st.integers(0, n_dist - 1))] if draw(st.booleans()) else dist_names[3]
                uid = f"{dist}_{county}_x{k}"
            else:
                uid = f"{county}_x{k}"
            pev = draw(st.sampled_from([0, 50, 100, 105]))
            zero2 = draw(st.integers(0, 5)) == 0
            rd, rg, ro = (0, 0, int(rng.integers(0, 50))) if zero2 else (int(rng.integers(0, 900)), int(rng.integers(0, 900)), int(rng.integers(0, 60)))
            extra.append({"id": uid, "st": s, "pev": pev, "rd": rd, "rg": rg, "ro": ro})

    # county-level feeds: every unit is a whole county (ids "<county>" / "<district>_<county>")
    if unit_types and draw(st.sampled_from(list(unit_types))) == "county":
        gut = "county-district" if district else "county"
        renamed = {}
        for i, u in enumerate(units):
            si = states.index(u["st"])
            u["county"] = f"{si + 1}{i + 100:03d}"
            new_id = f"{u['dist']}_{u['county']}" if district else u["county"]
            renamed[u["id"]] = new_id
            u["id"] = new_id
        if "unit_blocklist" in mp:
            mp["unit_blocklist"] = [renamed.get(b, b) for b in mp["unit_blocklist"]]
        for k, e in enumerate(extra):
            parts_ = e["id"].split("_")
            si = states.index(e["st"])
            e["id"] = f"{parts_[0]}_{si + 1}9{k:02d}0" if district else f"{si + 1}9{k:02d}0"

    case = {
        "office": office,
        "gut": gut,
        "states": states,
        "float_votes": draw(st.booleans()),
        "units": units,
        "extra": extra,
        "req": {
            "pi": pi,
            "estimands": estimands,
            "alphas": alphas,
            "aggregates": aggregates,
            "thr": thr,
            "hu": hu,
            "features": features,
            "fe": fe,
            "mp": mp,
            "lhs": [],
            "rhs": [],
            "stop": [],
        },
    }
    return case
