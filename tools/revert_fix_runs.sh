#!/bin/bash
# Sensitivity: revert each fix: commit on top of the current /repo HEAD in a scratch worktree and run the property's quick
# check against it (VERIF_REPO).  Output and found replay files go to $OUTDIR, never into /verif's evidence.
OUTDIR=${1:-/tmp/revert_runs}
mkdir -p $OUTDIR
WT=/tmp/wt_revert
git -C /repo worktree remove --force $WT 2>/dev/null
git -C /repo worktree add --detach $WT HEAD >/dev/null 2>&1
while read sha prop fid; do
  [ -z "$sha" ] && continue
  (cd $WT && git checkout -q -- . && git -C /repo diff $sha^ $sha | git apply -R) || { echo "$fid $prop REVERT-FAILED" | tee -a $OUTDIR/summary.txt; continue; }
  mkdir -p $OUTDIR/$fid
  (cd /verif && VERIF_REPO=$WT VERIF_OUT=$OUTDIR/$fid timeout 1500 ./check $prop --tier quick > $OUTDIR/$fid/out.txt 2>&1; echo "$fid $prop exit=$? $(grep -c '^VIOLATION' $OUTDIR/$fid/out.txt) violation lines: $(grep '^VIOLATION' $OUTDIR/$fid/out.txt | sed 's/.*kind=\([^ ]*\) sig=\([^ ]*\).*/\1/' | sort | uniq -c | tr '\n' ';')" | tee -a $OUTDIR/summary.txt)
done <<LIST
3898989 C13 F05
c2d37d1 C13 F04
31091f0 C01 F03
635c736 C11 F01
231021b C11 F02
4e12fa5 C02 F16
73affb9 C14 F08
ae41f13 C11 F14
af169a7 C12 F06
9dec59b C12 F15
7e6a598 C10 F12
a296349 C18 F10
d9bd56a C08 F07
f23bfa6 C08 F13
19a6057 C20 F09
6db6a5f C20 F19
6e97195 C17 F11
45141a4 C17 F17
2e8c588 C17 F18
96d3cfc C16 F20
7b18d80 C12 F22
LIST
git -C /repo worktree remove --force $WT
