#!/bin/bash
# final re-evaluation of the first two rounds (seeded/<ID>-A..D) against the final checks; skips those whose
# eval_final.json is newer than the marker file given as $2
cd /verif
exec 9>/tmp/eval_queue.lock
flock 9
ls -d seeded/C*-[A-D] | while read d; do [ -f $d/eval_final.json ] && [ $d/eval_final.json -nt ${2:-/tmp/final_marker} ] || echo $d; done | xargs -P ${1:-3} -I{} sh -c 'p=$(basename {} | cut -c1-3); SKIP_SUITE=1 EVAL_OUT=eval_final.json EVAL_TMP=/tmp/seed_eval_final tools/eval_seeded.sh {} $p quick >> /tmp/seed_eval_final.log 2>&1'
