#!/bin/bash
# re-run every seeded change against the FINAL checks (suite skipped: confirmed before); writes seeded/<x>/eval_final.json
cd /verif
exec 9>/tmp/eval_queue.lock
flock 9
ls -d seeded/C*-* | xargs -P ${1:-3} -I{} sh -c 'p=$(basename {} | cut -c1-3); SKIP_SUITE=1 EVAL_OUT=eval_final.json EVAL_TMP=/tmp/seed_eval_final tools/eval_seeded.sh {} $p quick >> /tmp/seed_eval_final.log 2>&1'
