#!/usr/bin/env python3
"""Print the 'Budgets as built' table of DESIGN.md section 10 from the property modules and the committed evidence,
and (with --write) replace the table in DESIGN.md."""
import importlib
import json
import os
import re
import sys

HERE = os.path.dirname(os.path.dirname(os.path.abspath(__file__)))
sys.path.insert(0, HERE)
sys.path.insert(0, "/repo/src")
rows = ["| check | quick parts | evaluations | distinct non-trivial | wall | thorough parts |", "|---|---|---|---|---|---|"]
for i in range(1, 21):
    pid = f"C{i:02d}"
    m = importlib.import_module(f"vf.props.c{i:02d}")
    e = json.load(open(os.path.join(HERE, "evidence", pid + ".json")))
    q = ", ".join(f"{p['name']} {p['n']}" for p in m.parts("quick"))
    t = ", ".join(f"{p['name']} {p['n']}" for p in m.parts("thorough"))
    rows.append(f"| {pid} | {q} | {e['coverage']['evaluations']} | {e['coverage']['distinct_nontrivial']} | {round(e['wall_s'])} s | {t} |")
table = "\n".join(rows)
print(table)
if "--write" in sys.argv:
    p = os.path.join(HERE, "DESIGN.md")
    s = open(p).read()
    s2 = re.sub(r"\| check \| quick parts \| evaluations.*?\n(\|.*\n)+", table + "\n", s, count=1)
    assert s2 != s or table in s
    open(p, "w").write(s2)
