#!/bin/bash
# quiet sweep: every check's quick tier at the given seeds against /repo; output to /tmp/sweep (not /verif/evidence)
cd /verif
for seed in "$@"; do
  for i in 01 02 03 04 05 06 07 08 09 10 11 12 13 14 15 16 17 18 19 20; do
    VERIF_SEED=$seed VERIF_OUT=/tmp/sweep/s$seed timeout 2400 ./check C$i --tier quick > /tmp/sweep/s$seed-C$i.txt 2>&1
    echo "seed=$seed C$i exit=$? $(grep -c '^VIOLATION' /tmp/sweep/s$seed-C$i.txt) $(tail -1 /tmp/sweep/s$seed-C$i.txt | cut -c1-160)" >> /tmp/sweep/summary.txt
  done
done
