#!/bin/bash
# quick manual re-check of one seeded change:  tools/try_seeded.sh <seeded name> <check id> [tier]   (suite and demo skipped)
N=$1; C=$2; T=${3:-quick}
WT=/tmp/wt_try_$N; OUT=/tmp/try_eval/$N
rm -rf $OUT; mkdir -p $OUT
git -C /repo worktree remove --force $WT 2>/dev/null
git -C /repo worktree add --detach $WT HEAD >/dev/null 2>&1 || exit 2
(cd $WT && git apply /verif/seeded/$N/patch.diff) || { git -C /repo worktree remove --force $WT; exit 2; }
(cd /verif && VERIF_REPO=$WT VERIF_OUT=$OUT ./check $C --tier $T > $OUT/check.txt 2>&1); ck=$?
git -C /repo worktree remove --force $WT
echo "$N check=$C exit=$ck $(grep '^VIOLATION' $OUT/check.txt | sed 's/.*kind=\([^ ]*\) .*/\1/' | sort | uniq -c | tr -s ' ' | tr '\n' ';') $(grep '^\[C' $OUT/check.txt | tail -1)"
