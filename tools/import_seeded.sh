#!/bin/bash
# copy finished seed-agent outputs $SRC/Cxx/{patchX.diff,demoX.py,metaX.json} (X in A,B) into seeded/Cxx-<L1|L2>/
# usage: SRC=/tmp/seed3_out L1=E L2=F tools/import_seeded.sh C01 C02 ...     (defaults: /tmp/seed_out A B)
SRC=${SRC:-/tmp/seed_out}; L1=${L1:-A}; L2=${L2:-B}
for id in "$@"; do
  d=$SRC/$id
  for pair in A:$L1 B:$L2; do
    v=${pair%%:*}; t=${pair##*:}
    if [ -f $d/patch$v.diff ] && [ -f $d/demo$v.py ] && [ -f $d/meta$v.json ] && [ ! -d seeded/$id-$t ]; then
      mkdir -p seeded/$id-$t
      cp $d/patch$v.diff seeded/$id-$t/patch.diff; cp $d/demo$v.py seeded/$id-$t/demo.py; cp $d/meta$v.json seeded/$id-$t/meta.json
      echo imported $id-$t
    fi
  done
done
