#!/bin/bash
# copy finished seed-agent outputs /tmp/seed_out/Cxx/{patchX.diff,demoX.py,metaX.json} into seeded/Cxx-X/
for d in $(for i in "$@"; do echo /tmp/seed_out/$i; done); do
  id=$(basename $d)
  for v in A B; do
    if [ -f $d/patch$v.diff ] && [ -f $d/demo$v.py ] && [ -f $d/meta$v.json ] && [ ! -d seeded/$id-$v ]; then
      mkdir -p seeded/$id-$v
      cp $d/patch$v.diff seeded/$id-$v/patch.diff; cp $d/demo$v.py seeded/$id-$v/demo.py; cp $d/meta$v.json seeded/$id-$v/meta.json
      echo imported $id-$v
    fi
  done
done
