#!/usr/bin/env python3
"""Automatic single-token mutation survey (a sensitivity measurement besides the hand-made seeded changes).

  tools/mutsurvey.py gen <outdir> [per_file]   write <outdir>/<k>/{patch.diff,info.json} for a seeded sample of
                                               single-token mutants of /repo's sources (operators, constants, join kinds,
                                               min/max, floor/ceil ...), stratified per file
The mutants are evaluated by tools/mutsurvey_run.sh in scratch worktrees outside /repo and /verif; nothing is
ever applied to /repo.  The sample is a pure function of the source text and of the seed below."""
import ast
import json
import os
import random
import re
import subprocess
import sys

REPO = os.environ.get("VERIF_REPO", "/repo")
SRC = "src/elexmodel"
# file -> checks whose statement the file is anchored in (properties.jsonl "anchors"), most specific first
FILES = {
    "handlers/data/CombinedData.py": ["C09", "C01", "C11", "C10", "C05"],
    "models/BaseElectionModel.py": ["C01", "C02", "C11"],
    "models/ConformalElectionModel.py": ["C05", "C03", "C04", "C14", "C20", "C10"],
    "models/NonparametricElectionModel.py": ["C04", "C02", "C03", "C14"],
    "models/GaussianElectionModel.py": ["C15", "C03", "C13", "C14", "C18"],
    "distributions/GaussianModel.py": ["C15", "C13", "C18"],
    "models/BootstrapElectionModel.py": ["C06", "C07", "C08", "C02", "C16", "C17", "C11", "C10"],
    "handlers/data/Featurizer.py": ["C16", "C05"],
    "handlers/data/Estimandizer.py": ["C09", "C05", "C01"],
    "handlers/data/ModelResults.py": ["C02", "C01", "C13", "C18"],
    "client.py": ["C14", "C13", "C18", "C07", "C08", "C01"],
    "handlers/data/VersionedData.py": ["C17", "C19"],
    "handlers/s3.py": ["C19", "C18"],
    "utils/math_utils.py": ["C15", "C12", "C04"],
}
CMP = {"<": "<=", "<=": "<", ">": ">=", ">=": ">", "==": "!=", "!=": "=="}
BIN = {ast.Add: ("+", "-"), ast.Sub: ("-", "+"), ast.Mult: ("*", "/"), ast.Div: ("/", "*")}
NAMES = {"maximum": "minimum", "minimum": "maximum", "max": "min", "min": "max", "floor": "ceil", "ceil": "floor",
         "sum": "mean", "any": "all", "all": "any", "cumsum": "cumprod", "argmax": "argmin", "argmin": "argmax"}
STRS = {"outer": "left", "left": "inner", "inner": "outer", "right": "left", "drop": "zero", "zero": "drop"}


def candidates(path):
    text = open(path).read()
    lines = text.split("\n")
    tree = ast.parse(text)
    doc_lines = set()
    for n in ast.walk(tree):
        if isinstance(n, (ast.FunctionDef, ast.ClassDef, ast.Module)) and n.body and isinstance(n.body[0], ast.Expr) and isinstance(getattr(n.body[0], "value", None), ast.Constant) and isinstance(n.body[0].value.value, str):
            doc_lines.update(range(n.body[0].lineno, n.body[0].end_lineno + 1))
    skip_re = re.compile(r"LOG\.|raise |logging|warnings\.|^\s*#|__name__")
    out = []

    def add(line, c0, c1, new, kind):
        if line in doc_lines or skip_re.search(lines[line - 1]):
            return
        out.append({"line": line, "c0": c0, "c1": c1, "old": lines[line - 1][c0:c1], "new": new, "kind": kind})

    def between(line, c0, c1, old, new, kind):
        seg = lines[line - 1][c0:c1]
        m = re.search(r"(?<![<>=!*/+\-])" + re.escape(old) + r"(?![=*/])", seg)
        if m:
            add(line, c0 + m.start(), c0 + m.end(), new, kind)

    for n in ast.walk(tree):
        if isinstance(n, ast.Compare) and len(n.ops) == 1:
            l, r = n.left, n.comparators[0]
            if l.end_lineno == r.lineno:
                for k, v in CMP.items():
                    if type(n.ops[0]).__name__ == {"<": "Lt", "<=": "LtE", ">": "Gt", ">=": "GtE", "==": "Eq", "!=": "NotEq"}[k]:
                        between(l.end_lineno, l.end_col_offset, r.col_offset, k, v, "cmp")
        elif isinstance(n, ast.BinOp) and type(n.op) in BIN and n.left.end_lineno == n.right.lineno:
            if isinstance(n.left, ast.Constant) and isinstance(n.left.value, str):
                continue
            if isinstance(n.right, ast.Constant) and isinstance(n.right.value, str):
                continue
            if isinstance(n.left, ast.JoinedStr) or isinstance(n.right, ast.JoinedStr) or isinstance(n.left, ast.List) or isinstance(n.right, ast.List):
                continue
            o, v = BIN[type(n.op)]
            between(n.left.end_lineno, n.left.end_col_offset, n.right.col_offset, o, v, "arith")
        elif isinstance(n, ast.BoolOp) and n.values[0].end_lineno == n.values[1].lineno:
            o, v = ("and", "or") if isinstance(n.op, ast.And) else ("or", "and")
            seg = lines[n.values[0].end_lineno - 1][n.values[0].end_col_offset:n.values[1].col_offset]
            m = re.search(r"\b" + o + r"\b", seg)
            if m:
                add(n.values[0].end_lineno, n.values[0].end_col_offset + m.start(), n.values[0].end_col_offset + m.end(), v, "bool")
        elif isinstance(n, ast.UnaryOp) and isinstance(n.op, ast.Not) and n.lineno == n.operand.lineno:
            add(n.lineno, n.col_offset, n.operand.col_offset, "", "not")
        elif isinstance(n, ast.UnaryOp) and isinstance(n.op, ast.Invert) and n.lineno == n.operand.lineno:
            add(n.lineno, n.col_offset, n.operand.col_offset, "", "invert")
        elif isinstance(n, ast.Constant) and n.lineno == n.end_lineno:
            v = n.value
            if isinstance(v, bool):
                add(n.lineno, n.col_offset, n.end_col_offset, str(not v), "const")
            elif isinstance(v, int) and v in (0, 1, 2):
                add(n.lineno, n.col_offset, n.end_col_offset, str({0: 1, 1: 0, 2: 1}[v]), "const")
            elif isinstance(v, float) and 0 < v < 100:
                add(n.lineno, n.col_offset, n.end_col_offset, repr(v * 0.9 if v != 0.5 else 0.45), "const")
            elif isinstance(v, str) and v in STRS:
                q = lines[n.lineno - 1][n.col_offset]
                add(n.lineno, n.col_offset, n.end_col_offset, q + STRS[v] + q, "str")
        elif isinstance(n, ast.Attribute) and n.attr in NAMES and n.end_lineno == n.lineno:
            add(n.lineno, n.end_col_offset - len(n.attr), n.end_col_offset, NAMES[n.attr], "name")
        elif isinstance(n, ast.Name) and n.id in ("max", "min") and isinstance(n.ctx, ast.Load):
            add(n.lineno, n.col_offset, n.end_col_offset, NAMES[n.id], "name")
    # unique by position
    seen, uniq = set(), []
    for c in sorted(out, key=lambda c: (c["line"], c["c0"], c["new"])):
        k = (c["line"], c["c0"])
        if k not in seen:
            seen.add(k)
            uniq.append(c)
    return lines, uniq


def main():
    outdir = sys.argv[2]
    per_file = int(sys.argv[3]) if len(sys.argv) > 3 else 8
    rnd = random.Random(int(os.environ.get("VERIF_SEED", "1")))
    os.makedirs(outdir, exist_ok=True)
    k = 0
    for rel, props in FILES.items():
        path = os.path.join(REPO, SRC, rel)
        lines, cands = candidates(path)
        n = per_file * (4 if "Bootstrap" in rel else 1)
        pick = rnd.sample(cands, min(n, len(cands)))
        for c in sorted(pick, key=lambda c: c["line"]):
            new_lines = list(lines)
            ln = new_lines[c["line"] - 1]
            new_lines[c["line"] - 1] = ln[: c["c0"]] + c["new"] + ln[c["c1"]:]
            try:
                ast.parse("\n".join(new_lines))
            except SyntaxError:
                continue
            d = os.path.join(outdir, f"m{k:03d}")
            os.makedirs(d, exist_ok=True)
            tmp = os.path.join(d, "new.py")
            open(tmp, "w").write("\n".join(new_lines))
            relp = f"{SRC}/{rel}"
            diff = subprocess.run(["diff", "-u", "--label", "a/" + relp, "--label", "b/" + relp, path, tmp], capture_output=True, text=True).stdout
            os.remove(tmp)
            open(os.path.join(d, "patch.diff"), "w").write(diff)
            json.dump({"file": relp, "line": c["line"], "kind": c["kind"], "old": c["old"], "new": c["new"], "source_line": ln.strip(), "checks": props, "candidates_in_file": len(cands)}, open(os.path.join(d, "info.json"), "w"), indent=1)
            k += 1
    print(f"{k} mutants written to {outdir}")


if __name__ == "__main__":
    main()
