#!/bin/bash
# evaluate every seeded/<ID>-<X> that has no eval.json yet, $1 at a time (default 3); one queue at a time (flock)
P=${1:-3}
cd /verif
exec 9>/tmp/eval_queue.lock
flock 9
ls -d seeded/C*-* 2>/dev/null | while read d; do [ -f $d/eval.json ] || echo $d; done | xargs -P $P -I{} sh -c 'p=$(basename {} | cut -c1-3); tools/eval_seeded.sh {} $p quick >> /tmp/seed_eval.log 2>&1'
