#!/bin/bash
# run every thorough tier once, sequentially (used through `vp run`); prints one summary line per check
for i in "$@"; do
  ./check $i --tier thorough > thorough_$i.txt 2>&1
  echo "$i exit=$? $(grep -c '^VIOLATION' thorough_$i.txt) $(grep '^\[C' thorough_$i.txt | tail -1)"
  grep '^VIOLATION' thorough_$i.txt | cut -c1-400
done
