#!/usr/bin/env python3
"""Merge eval.json into each seeded/<ID>-<X>/meta.json and print the markdown table for DESIGN.md section 12."""
import glob
import json
import os

HERE = os.path.dirname(os.path.dirname(os.path.abspath(__file__)))
rows = []
for d in sorted(glob.glob(os.path.join(HERE, "seeded", "C*-*"))):
    name = os.path.basename(d)
    meta_p, eval_p = os.path.join(d, "meta.json"), os.path.join(d, "eval.json")
    if not (os.path.exists(meta_p) and os.path.exists(eval_p)):
        continue
    meta, ev = json.load(open(meta_p)), json.load(open(eval_p))
    first = None
    fp = os.path.join(d, "eval_first_pass.json")
    if os.path.exists(fp):
        first = json.load(open(fp))
    meta["property"] = name[:3]
    meta["breaks_property"] = name[:3]
    meta["confirmed_by_harness_author"] = {
        "how": "tools/eval_seeded.sh: patch applied to a scratch worktree of /repo HEAD (never to /repo); pinned suite run there; demo.py run on the unchanged and on the changed tree; ./check <property> --tier quick run against the changed tree with VERIF_REPO/VERIF_OUT",
        "suite_on_changed_tree": ev["suite"],
        "demo_exit_unchanged_tree": ev["demo_exit_unchanged"],
        "demo_exit_changed_tree": ev["demo_exit_changed"],
        "check_quick_exit_on_changed_tree": ev["check_exit"],
        "violation_kinds_reported": ev["violation_kinds"].strip(),
    }
    if first is not None:
        meta["confirmed_by_harness_author"]["first_pass"] = {
            "check_quick_exit_on_changed_tree": first["check_exit"],
            "note": "missed by the check as first built; the check was strengthened afterwards (DESIGN.md section 12)",
        }
    json.dump(meta, open(meta_p, "w"), indent=1)
    what = (meta.get("what_changed") or "").replace("\n", " ").replace("|", "/")
    needs = (meta.get("needs_to_manifest") or "").replace("\n", " ").replace("|", "/")
    caught = "caught" if ev["check_exit"] == 1 else ("MISSED" if ev["check_exit"] == 0 else f"harness error ({ev['check_exit']})")
    if first is not None and ev["check_exit"] == 1:
        caught = "caught after strengthening (missed at first)"
    ok = ev["suite"].startswith("2 failed, 156 passed") and ev["demo_exit_unchanged"] == "0" and ev["demo_exit_changed"] == "1"
    rows.append((name, what[:150], needs[:150], caught, ev["violation_kinds"].strip()[:90], "yes" if ok else "NO"))
print("| change | what it changes | needs to manifest | quick tier of its property's check | violation kinds | suite 156 / demo fails only with the change |")
print("|---|---|---|---|---|---|")
for r in rows:
    print("| " + " | ".join(r) + " |")
