#!/usr/bin/env python3
"""Regenerate MANIFEST.json from the property modules that exist (run from /verif)."""
import json
import os
import re
import subprocess

HERE = os.path.dirname(os.path.dirname(os.path.abspath(__file__)))

META = {
    "C01": ("election-run", "exploration", "4 C01", "generated elections vs reference aggregation (differential oracle)", "reference categorisation + aggregation of the generated feed compared with every returned table"),
    "C02": ("election-run", "exploration", "4 C02", "generated elections; unit-table group sums; bootstrap reference aggregator from retained draws", "sums of the returned unit table per group; per-group loop over the model's retained draws"),
    "C03": ("election-run", "exploration", "4 C03", "generated hard-case elections; floor / finiteness / pass-through invariants", "invariants over every unit and aggregate row"),
    "C04": ("component + Monte Carlo", "exploration", "4 C04", "generated calibration sets vs reference conformal correction; identical not-yet-reporting twins of the calibration units (metamorphic); Monte-Carlo coverage with exact binomial test", "reference correction from the statement; a calibration unit is scored against the bounds its twin is given; binomial test at 1e-6"),
    "C05": ("election-run", "exploration", "4 C05", "generated elections without covariates (baselines also through the config's baseline_pointer) vs exact-rational weighted median closed form", "exact rational weighted median"),
    "C06": ("grid + election-run + model-level", "exploration", "4 C06", "exhaustive rank grid; generated bootstrap runs (also with the margin extrapolation on generated version histories) and generated draw matrices; ordering/nesting/range invariants", "ordering, nesting, range invariants"),
    "C07": ("model-level + election-run", "exploration", "4 C07", "generated draw matrices x call/stop subsets vs decision table; metamorphic no-list run", "decision table from the statement; bit-identical untouched rows"),
    "C08": ("stateful + model-level + e2e table", "exploration", "4 C08", "Hypothesis rule-based state machine over aggregate histories; generated draw matrices vs range/composition oracle; client summary table vs per-level model estimates", "summary equals canonical-history reference; range/ordering/composition; table carries each level's own estimate"),
    "C09": ("component + e2e slice", "exploration", "4 C09", "generated feeds through get_units vs reference categorisation with precedence", "reference categorisation"),
    "C10": ("paired election-runs + historical harness", "exploration", "4 C10", "metamorphic pairs differing in one excluded unit's counts; bitwise comparison; observed inputs of the outlier-detection regressions", "rows outside the perturbed unit/groups bit-identical; no excluded unit among the outlier models' inputs"),
    "C11": ("paired election-runs", "exploration", "4 C11", "metamorphic pairs (feed, feed + one unexpected row); exact additivity", "exact +v additivity and ratio formulas"),
    "C12": ("stateful + subprocess", "exploration", "4 C12", "Hypothesis rule-based state machine over call histories (separate elections and one election with several requests sharing frame objects); fresh processes under different hash seeds; repeated national summaries", "every result of a request equals its result on a fresh client with fresh frames"),
    "C13": ("paired election-runs", "exploration", "4 C13", "metamorphic pairs of requests (subset/superset/permutation; also with per-county fixed effects); bitwise comparison of common cells", "common cells bit-identical"),
    "C14": ("grid + election-run", "exploration", "4 C14", "exhaustive (alpha, n) band on the real split + far-field arithmetic; generated elections with exact n", "gate iff; split validity"),
    "C15": ("election-run (large)", "exploration", "4 C15", "generated group structures (two- and three-level lists) vs fallback-source reference and bounds formula", "reference fallback source (own / parent / ... / all) and normal-quantile formula"),
    "C16": ("component + e2e slice", "exploration", "4 C16", "generated level assignments through Featurizer vs reference design matrix; relabelling metamorphic; observed fit / prediction matrices of the conformal and bootstrap models", "reference design matrix; clause-by-clause check of the observed matrices"),
    "C17": ("component", "exploration", "4 C17", "generated version histories vs exact-rational interpolation reference", "exact rational interpolation"),
    "C18": ("enumerated configs + recording S3", "fault_enumeration", "4 C18", "enumeration of save_output x environment (local, non-local with APP_ENV equal to / different from DATA_ENV) x estimator x gate outcome with a recording S3 client", "expected put/file set and order; key grammar"),
    "C19": ("scripted S3 service", "fault_enumeration", "4 C19", "exhaustive small paging space + generated listings/windows/fault sets against a scripted S3 service", "window filter reference; per-version stamping"),
    "C20": ("injected solver faults", "fault_enumeration", "4 C20", "fault injection at every fit position x both failure kinds; differential against the un-faulted run", "retry call equals failed call except normalize_weights; run completes"),
}

LEVEL_TEXT = {
    "exploration": "Held on every generated case of this run; nothing is proved. Generated-input search against an explicit oracle is the right level because the property quantifies over election structures / request sets / histories that only a generator reaches; counts, non-trivial rule and samples are in the evidence file.",
    "fault_enumeration": "The fault / configuration space is enumerated completely per generated case (positions x kinds, or option subsets x environments) and sampled over elections; held on everything enumerated, nothing proved.",
}


def main():
    props = [json.loads(l) for l in open(os.path.join(HERE, "properties.jsonl"))]
    have = set(json.load(open(os.path.join(HERE, "tools", "claimed.json"))))
    na_path = os.path.join(HERE, "tools", "not_applicable.json")
    na_extra = json.load(open(na_path)) if os.path.exists(na_path) else {}
    try:
        commits = subprocess.check_output(["git", "-C", "/repo", "log", "--format=%H %s", "05d0332..HEAD"], text=True).strip().splitlines()
    except Exception:
        commits = []
    checks = []
    na = []
    for p in props:
        pid = p["id"]
        if pid in have and pid not in na_extra:
            eng, level, dref, tech, oracle = META[pid]
            checks.append(
                {
                    "property_id": pid,
                    "quick_cmd": f"./check {pid} --tier quick",
                    "thorough_cmd": f"./check {pid} --tier thorough",
                    "evidence_file": f"evidence/{pid}.json",
                    "replay_cmd_template": f"./check {pid} --replay {{path}}",
                    "engine": eng,
                    "level_claimed": {"category": level, "text": LEVEL_TEXT[level] + " Oracle: " + oracle + ".", "design_ref": f"DESIGN.md section {dref}"},
                    "level_note": "Trusted: CPython 3.12 in /venv, numpy/pandas/scipy/cvxpy/elex-solver as installed, Hypothesis generation, the reference models in vf/ref.py and the property module, the input-domain assumptions of DESIGN.md 2.1 (listed again in the evidence file's assumptions).",
                    "technique": "property-based testing (Hypothesis): " + tech,
                }
            )
        else:
            na.append({"property_id": pid, "reason": na_extra.get(pid, "check not built yet in this session (planned: see DESIGN.md section 4); not claimed until its check exists and is quiet on the unchanged tree")})
    man = {
        "version": 1,
        "setup_cmd": "/venv/bin/python -c 'import hypothesis' || /venv/bin/pip install --no-index --find-links /opt/veriftools/wheels hypothesis",
        "hooks": {
            "guard": "ELEXMODEL_VERIF",
            "enable": "no source hook is needed: every check drives the installed package through public entry points and third-party seams (boto3.client, S3VersionUtil attributes, elex-solver fit); ./check exports ELEXMODEL_VERIF=1 for completeness",
            "baseline_off_cmd": "cd /repo && /venv/bin/python -m pytest -ra -q -p no:cacheprovider --timeout=900 --continue-on-collection-errors",
            "source_commits": [c.split()[0] for c in commits if not c.split(" ", 1)[1].startswith("fix:")],
            "add_only": True,
        },
        "engines": [
            {"name": "vf", "path": "vf/", "serves_properties": sorted(c["property_id"] for c in checks), "kind_free_text": "Hypothesis-driven generators + reference oracles + 16-way sharded runner (vf/runner.py); exhaustive grids where the domain is finite"}
        ],
        "checks": checks,
        "not_applicable": na,
        "notes": "fix: commits in /repo (unguarded repairs of genuine defects found by these checks): " + "; ".join(c[:10] + " " + c.split(" ", 1)[1] for c in commits if c.split(" ", 1)[1].startswith("fix:")),
    }
    with open(os.path.join(HERE, "MANIFEST.json"), "w") as f:
        json.dump(man, f, indent=1)
    print("checks:", [c["property_id"] for c in checks], "not_applicable:", [n["property_id"] for n in na])


if __name__ == "__main__":
    main()
