#!/bin/bash
# Evaluate the mutants produced by tools/mutsurvey.py:  tools/mutsurvey_run.sh <dir> [parallel=2] [workers per check=8]
# Each mutant is applied to its own scratch worktree of /repo HEAD under /tmp (never to /repo), the checks its file is
# anchored in are run in order (quick tier, VERIF_REPO/VERIF_OUT so nothing is written into /verif) until one reports
# a violation; for survivors the pinned suite is run as well (a mutant the suite kills is not a "realistic" change in the
# sense of the brief).  One result.json per mutant; the worktree is removed straight afterwards.
DIR=$(cd "$1" && pwd); P=${2:-2}; W=${3:-8}
cd /verif
one() {
  d=$1; W=$2; n=$(basename $d)
  [ -f $d/result.json ] && return
  WT=/tmp/wt_mut_$n; OUT=/tmp/mut_eval/$n
  rm -rf $OUT; mkdir -p $OUT
  git -C /repo worktree remove --force $WT 2>/dev/null
  git -C /repo worktree add --detach $WT HEAD >/dev/null 2>&1 || { echo "$n worktree failed"; return; }
  (cd $WT && git apply $d/patch.diff) || { echo "$n patch does not apply"; git -C /repo worktree remove --force $WT; return; }
  checks=$(python3 -c "import json;print(' '.join(json.load(open('$d/info.json'))['checks']))")
  killed_by=""; ran=""
  for c in $checks; do
    (VERIF_REPO=$WT VERIF_OUT=$OUT VERIF_WORKERS=$W timeout 2400 ./check $c --tier quick > $OUT/check_$c.txt 2>&1); ck=$?
    ran="$ran $c:$ck"
    if [ $ck = 1 ]; then killed_by=$c; break; fi
  done
  suite="not run"
  if [ -z "$killed_by" ]; then
    (cd $WT && PYTHONPATH=$WT/src timeout 1800 /venv/bin/python -m pytest -q -p no:cacheprovider -x --timeout=900 --deselect tests/handlers/test_live_data.py::test_sample_overweight --deselect tests/utils/test_file_utils.py::test_get_directory_path > $OUT/suite.txt 2>&1)
    suite=$(tail -1 $OUT/suite.txt)
  fi
  kinds=""
  [ -n "$killed_by" ] && kinds=$(grep '^VIOLATION' $OUT/check_$killed_by.txt | sed 's/.*kind=\([^ ]*\) .*/\1/' | sort | uniq -c | tr -s ' ' | tr '\n' ';')
  git -C /repo worktree remove --force $WT
  python3 - <<EOF
import json
json.dump({"mutant":"$n","checks_run":"$ran".split(),"reported_by":"$killed_by" or None,"violation_kinds":"""$kinds""","suite_on_survivor":"""$suite"""}, open("$d/result.json","w"), indent=1)
EOF
  rm -rf $OUT
  echo "$n reported_by=${killed_by:-NONE} ran=[$ran ] suite=[$suite]"
}
export -f one
ls -d $DIR/m* | xargs -P $P -I{} bash -c "one {} $W"
