#!/bin/bash
# Evaluate one seeded change:  tools/eval_seeded.sh <dir with patch.diff + demo.py> <PROP> [tier] [extra props...]
# 1. applies the patch to a scratch worktree of /repo HEAD (never to /repo itself),
# 2. runs the pinned test suite there (must be 156 passed / the 2 baseline failures),
# 3. runs the demonstration with and without the change,
# 4. runs the property's check against the changed tree (VERIF_REPO / VERIF_OUT: no evidence is written into /verif).
# Prints one summary line and writes <dir>/eval.json; removes the worktree.
D=$(cd "$1" && pwd); PROP=$2; TIER=${3:-quick}
NAME=$(basename $D)
WT=/tmp/wt_seed_$NAME
OUT=${EVAL_TMP:-/tmp/seed_eval}/$NAME
rm -rf $OUT; mkdir -p $OUT
git -C /repo worktree remove --force $WT 2>/dev/null
git -C /repo worktree add --detach $WT HEAD >/dev/null 2>&1 || { echo "$NAME worktree failed"; exit 2; }
DEMO=$D/demo.py
# demo on the unchanged tree
if [ -f $DEMO ]; then (cd $OUT && PYTHONPATH=$WT/src APP_LOG_LEVEL=CRITICAL timeout 900 /venv/bin/python $DEMO > $OUT/demo_clean.txt 2>&1); DC=$?; else DC=NA; fi
(cd $WT && git apply $D/patch.diff) || { echo "$NAME patch does not apply"; git -C /repo worktree remove --force $WT; exit 2; }
if [ -z "$SKIP_SUITE" ]; then
  (cd $WT && PYTHONPATH=$WT/src timeout 1800 /venv/bin/python -m pytest -q -p no:cacheprovider --timeout=900 > $OUT/suite.txt 2>&1)
  SUITE=$(tail -1 $OUT/suite.txt)
else SUITE="skipped"; fi
if [ -f $DEMO ]; then (cd $OUT && PYTHONPATH=$WT/src APP_LOG_LEVEL=CRITICAL timeout 900 /venv/bin/python $DEMO > $OUT/demo_mut.txt 2>&1); DM=$?; else DM=NA; fi
(cd /verif && VERIF_REPO=$WT VERIF_OUT=$OUT timeout 3000 ./check $PROP --tier $TIER > $OUT/check.txt 2>&1); CK=$?
KINDS=$(grep '^VIOLATION' $OUT/check.txt | sed 's/.*kind=\([^ ]*\) sig=\([^ ]*\).*/\1/' | sort | uniq -c | tr -s ' ' | tr '\n' ';')
git -C /repo worktree remove --force $WT
python3 - <<EOF
import json
json.dump({"name":"$NAME","property":"$PROP","tier":"$TIER","suite":"""$SUITE""","demo_exit_unchanged":"$DC","demo_exit_changed":"$DM","check_exit":$CK,"violation_kinds":"""$KINDS"""}, open("$D/${EVAL_OUT:-eval.json}","w"), indent=1)
EOF
echo "$NAME prop=$PROP suite=[$SUITE] demo(clean/mut)=$DC/$DM check_exit=$CK kinds=$KINDS"
